package main

import (
	"encoding/json"
	"fmt"
	"math/rand"
	"sort"
	"strings"

	regexp2 "github.com/dlclark/regexp2/v2"
	"github.com/dlclark/regexp2/v2/syntax"

	"verif/internal/core"
	"verif/internal/gen"
	"verif/internal/mon"
	"verif/internal/ref"
)

// The mirror oracle of C15: a pattern matched left to right on a text and its
// mirror image matched RightToLeft on the reversed text must find mirrored
// matches with mirrored captures. It needs no specification, so it covers the
// full syntax (balancing groups, conditionals, atomic groups, nested
// look-around, back-references) that the specification's fragment leaves out.

type mirrorCase struct {
	fwd, rev   *gen.Pattern
	opts       int
	fre, rre   *regexp2.Regexp
	groupNames []string
}

func obsByName(m *regexp2.Match, names []string, n int, mirrored bool) string {
	if m == nil {
		return "nil"
	}
	var sb strings.Builder
	for _, name := range names {
		sb.WriteString(name)
		sb.WriteByte(':')
		g := m.GroupByName(name)
		if g == nil {
			sb.WriteString("<no such group>;")
			continue
		}
		for _, c := range g.Captures {
			i, l := c.RuneIndex, c.RuneLength
			if mirrored {
				i = n - i - l
			}
			fmt.Fprintf(&sb, "(%d,%d)", i, l)
		}
		sb.WriteByte(';')
	}
	return sb.String()
}

// buildMirrorCase prepares ast (in place), prints both images and compiles them.
func buildMirrorCase(ast *gen.Node, opts int) (*mirrorCase, error) {
	env := envOf(opts)
	if !gen.MirrorPrep(ast, env) {
		return nil, nil
	}
	fwd := gen.Finish(ast, env, false, gen.PrintOpts{})
	if fwd == nil {
		return nil, nil
	}
	rev := gen.Finish(gen.Mirror(ast), env, false, gen.PrintOpts{})
	if rev == nil {
		return nil, nil
	}
	c := &mirrorCase{fwd: fwd, rev: rev, opts: opts}
	var err error
	if c.fre, err = mon.Compile(fwd.Src, opts, 0); err != nil {
		return c, err
	}
	if c.rre, err = mon.Compile(rev.Src, opts|int(regexp2.RightToLeft), 0); err != nil {
		return c, fmt.Errorf("mirror image %q rejected: %v", rev.Src, err)
	}
	c.fre.MatchTimeout = shortTimeout
	c.rre.MatchTimeout = shortTimeout
	for name := range fwd.Groups.ByName {
		c.groupNames = append(c.groupNames, name)
	}
	sort.Strings(c.groupNames)
	return c, nil
}

// mirrorCompare returns a detail on disagreement; incon names a resource error.
func mirrorCompare(c *mirrorCase, runes []rune, start int) (detail, fwd, rev, incon string) {
	n := len(runes)
	fm, ferr := c.fre.FindRunesMatchStartingAt(runes, start)
	if ferr != nil {
		if mon.ResourceErr(ferr) {
			return "", "", "", "forward-" + mon.ErrClass(ferr)
		}
		return "forward image returned an error: " + ferr.Error(), "error", "", ""
	}
	rm, rerr := c.rre.FindRunesMatchStartingAt(gen.ReverseRunes(runes), n-start)
	if rerr != nil {
		if mon.ResourceErr(rerr) {
			return "", "", "", "mirror-" + mon.ErrClass(rerr)
		}
		return "mirror image returned an error: " + rerr.Error(), "", "error", ""
	}
	fwd = obsByName(fm, c.groupNames, n, false)
	rev = obsByName(rm, c.groupNames, n, true)
	if fwd != rev {
		return fmt.Sprintf("%q on %q from %d gives %s; its mirror image %q (RightToLeft) on the reversed text from %d gives, mapped back, %s", c.fwd.Src, string(runes), start, fwd, c.rev.Src, n-start, rev), fwd, rev, ""
	}
	return "", fwd, rev, ""
}

// mirrorChain compares the FindRunesMatch / FindNextMatch chains of the two
// images (whole-match positions and all captures, match by match).
func mirrorChain(c *mirrorCase, runes []rune) (detail, incon string, n int) {
	chainOf := func(re *regexp2.Regexp, text []rune, mirrored bool) ([]string, string) {
		var out []string
		m, err := re.FindRunesMatch(text)
		for m != nil && err == nil {
			out = append(out, obsByName(m, c.groupNames, len(text), mirrored))
			if len(out) > len(text)+2 {
				return out, "runaway"
			}
			m, err = re.FindNextMatch(m)
		}
		if err != nil {
			if mon.ResourceErr(err) {
				return nil, "chain-" + mon.ErrClass(err)
			}
			return append(out, "error: "+err.Error()), ""
		}
		return out, ""
	}
	f, fi := chainOf(c.fre, runes, false)
	if fi == "runaway" {
		return fmt.Sprintf("%q on %q: the FindNextMatch chain does not end", c.fwd.Src, string(runes)), "", 0
	}
	r, ri := chainOf(c.rre, gen.ReverseRunes(runes), true)
	if ri == "runaway" {
		return fmt.Sprintf("%q (RightToLeft) on %q: the FindNextMatch chain does not end", c.rev.Src, string(gen.ReverseRunes(runes))), "", 0
	}
	if fi != "" || ri != "" {
		return "", fi + ri, 0
	}
	// the find-all byte indexes of the two images, mapped back to rune spans through independent
	// index maps (the right-to-left image walks its rune-to-byte table downwards)
	if validRunes(runes) {
		toRunes := func(s string, pairs [][]int) ([][2]int, string) {
			im := mon.NewIndexMap(s)
			at := map[int]int{}
			for i, o := range im.Off {
				at[o] = i
			}
			var out [][2]int
			for _, p := range pairs {
				a, ok1 := at[p[0]]
				b, ok2 := at[p[1]]
				if !ok1 || !ok2 {
					return nil, fmt.Sprintf("byte span %v of FindAllStringIndex(%q) does not lie on rune boundaries", p, s)
				}
				out = append(out, [2]int{a, b - a})
			}
			return out, ""
		}
		fs, rs := string(runes), string(gen.ReverseRunes(runes))
		fa, e1 := c.fre.FindAllStringIndex(fs, -1)
		ra, e2 := c.rre.FindAllStringIndex(rs, -1)
		if e1 == nil && e2 == nil {
			fr, bad1 := toRunes(fs, fa)
			rr, bad2 := toRunes(rs, ra)
			if bad1 != "" || bad2 != "" {
				return bad1 + bad2, "", len(f)
			}
			for i := range rr {
				rr[i][0] = len(runes) - rr[i][0] - rr[i][1]
			}
			if fmt.Sprint(fr) != fmt.Sprint(rr) {
				return fmt.Sprintf("FindAllStringIndex differs: %q on %q gives rune spans %v; its mirror image %q (RightToLeft) on the reversed text gives, mapped back, %v", c.fwd.Src, fs, fr, c.rev.Src, rr), "", len(f)
			}
		}
	}
	if strings.Join(f, " | ") != strings.Join(r, " | ") {
		return fmt.Sprintf("FindNextMatch chains differ: %q on %q gives [%s]; its mirror image %q (RightToLeft) on the reversed text gives, mapped back, [%s]", c.fwd.Src, string(runes), strings.Join(f, " | "), c.rev.Src, strings.Join(r, " | ")), "", len(f)
	}
	return "", "", len(f)
}

func mirrorWitness(c *mirrorCase, runes []rune, start int) core.Witness {
	ast, _ := json.Marshal(c.fwd.AST)
	w := core.Witness{Kind: "mirror", Pattern: c.fwd.Src, AST: ast, Options: c.opts, Start: start, Input: string(runes)}
	for _, r := range runes {
		w.InputRune = append(w.InputRune, int32(r))
	}
	w.Args = map[string]any{"mirror_pattern": c.rev.Src}
	return w
}

// mirrorExplainedByNonBoundaryAtomic: known finding K1 exists only left to right;
// with its clauses gated off the forward image agrees with the mirror image.
func mirrorExplainedByNonBoundaryAtomic(c *mirrorCase, runes []rune, start int, rev string) bool {
	re, err := mon.CompileGated(syntax.VerifRewriteNonBoundaryAtomic, c.fwd.Src, c.opts, 0)
	if err != nil {
		return false
	}
	re.MatchTimeout = shortTimeout
	m, err := re.FindRunesMatchStartingAt(runes, start)
	if err != nil {
		return false
	}
	return obsByName(m, c.groupNames, len(runes), false) == rev
}

func mirrorChainExplainedByK1(c *mirrorCase, runes []rune) bool {
	re, err := mon.CompileGated(syntax.VerifRewriteNonBoundaryAtomic, c.fwd.Src, c.opts, 0)
	if err != nil {
		return false
	}
	re.MatchTimeout = shortTimeout
	g := *c
	g.fre = re
	d, incon, _ := mirrorChain(&g, runes)
	return d == "" && incon == ""
}

func replayMirror(w core.Witness) string {
	var ast gen.Node
	if err := json.Unmarshal(w.AST, &ast); err != nil {
		return ""
	}
	c, err := buildMirrorCase(&ast, w.Options)
	if c == nil {
		return ""
	}
	if err != nil {
		return "Compile: " + err.Error()
	}
	runes := make([]rune, len(w.InputRune))
	for i, r := range w.InputRune {
		runes[i] = rune(r)
	}
	if v, _ := w.Args["chain"].(bool); v {
		d, _, _ := mirrorChain(c, runes)
		return d
	}
	d, _, _, _ := mirrorCompare(c, runes, w.Start)
	return d
}

func shrinkMirror(c *mirrorCase, runes []rune, start int) (*mirrorCase, []rune, int) {
	failsWith := func(ast *gen.Node, in []rune, st int) *mirrorCase {
		nc, err := buildMirrorCase(ast.Clone(), c.opts)
		if err != nil || nc == nil {
			return nil
		}
		if d, _, _, _ := mirrorCompare(nc, in, st); d != "" {
			return nc
		}
		return nil
	}
	best := c
	ast := gen.Shrink(c.fwd.AST, func(a *gen.Node) bool { return gen.Finish(a.Clone(), envOf(c.opts), false, gen.PrintOpts{}) != nil },
		func(a *gen.Node) bool { return failsWith(a, runes, start) != nil }, 400)
	if nc := failsWith(ast, runes, start); nc != nil {
		best = nc
	}
	// shrink the input: drop runes while the disagreement stays
	for i := 0; i < len(runes); {
		cand := append(append([]rune(nil), runes[:i]...), runes[i+1:]...)
		st := start
		if st > i {
			st--
		}
		if d, _, _, _ := mirrorCompare(best, cand, st); d != "" {
			runes, start = cand, st
		} else {
			i++
		}
	}
	return best, runes, start
}

// runMirror is the second phase of C15.
func runMirror(r *core.Run) {
	nPat := r.Pick(1500, 40000)
	nDirected := r.Pick(24, 60)
	base := rand.New(rand.NewSource(r.Seed*15485863 + 151)).Int63()
	r.Parallel(nPat, func(i int, l *core.Local) {
		rng := rand.New(rand.NewSource(base + int64(i)*1000003))
		opts := 0
		for _, o := range []regexp2.RegexOptions{regexp2.IgnoreCase, regexp2.Multiline, regexp2.Singleline, regexp2.ExplicitCapture, regexp2.IgnorePatternWhitespace} {
			if rng.Intn(5) == 0 {
				opts |= int(o)
			}
		}
		prof := fullProfile(rng)
		if i%2 == 0 {
			prof.Balancing = true
		}
		var root *gen.Node
		origin := "random"
		if i%4 == 3 {
			t := &gen.T{R: rng, Let: prof.Letters}
			k := rng.Intn(len(gen.TemplateNames))
			root = t.Template(k)
			origin = "template:" + gen.TemplateNames[k]
		} else {
			root = gen.NewG(rng, prof).Random(envOf(opts), false).AST
		}
		c, err := buildMirrorCase(root, opts)
		if c == nil {
			l.Count("mirror_not_printable", 1)
			return
		}
		if !r.ClaimPattern(fmt.Sprintf("m/%d/%s", opts, c.fwd.Src)) {
			return
		}
		if err != nil {
			// both images are printed from one AST: the engine must accept both or neither
			_, ferr := mon.Compile(c.fwd.Src, opts, 0)
			_, rerr := mon.Compile(c.rev.Src, opts|int(regexp2.RightToLeft), 0)
			if (ferr == nil) != (rerr == nil) {
				l.Violate(core.Violation{Kind: "mirror-image-compile-asymmetry", Detail: fmt.Sprintf("%q: %v; mirror image %q (RightToLeft): %v", c.fwd.Src, ferr, c.rev.Src, rerr), Witness: mirrorWitness(c, nil, 0)})
			}
			l.Count("mirror_compile_rejected", 1)
			return
		}
		l.Count("mirror_patterns", 1)
		l.Count("mirror_origin_"+strings.SplitN(origin, ":", 2)[0], 1)
		c.fwd.AST.Walk(func(n *gen.Node) { l.Count(fmt.Sprintf("mirror_node_kind_%02d", int(n.K)), 1) })
		pc := &patCase{src: c.fwd.Src, opts: opts, pat: c.fwd, origin: origin}
		var nontriv int64
		timeouts := 0
		d := ref.Dialect{}
		_ = d
		for _, runes := range inputsFor(pc, rng, 4, nDirected) {
			if r.Stopped() {
				return
			}
			hit := false
			for s := 0; s <= len(runes); s += offsetStep(len(runes), s) {
				detail, fwd, rev, incon := mirrorCompare(c, runes, s)
				l.Eval(1)
				if incon != "" {
					l.Inconclusive(incon)
					timeouts++
					if timeouts >= 3 {
						l.Count("mirror_patterns_abandoned_after_timeouts", 1)
						l.NontrivialN(nontriv)
						return
					}
					continue
				}
				if fwd != "nil" {
					hit = true
				}
				if detail == "" {
					continue
				}
				if k := r.KnownClass("nonboundary-auto-atomic"); k != nil && mirrorExplainedByNonBoundaryAtomic(c, runes, s, rev) {
					r.KnownHit(k.ID)
					continue
				}
				sc, sr, ss := shrinkMirror(c, runes, s)
				d2, f2, r2, _ := mirrorCompare(sc, sr, ss)
				if d2 == "" {
					sc, sr, ss, d2, f2, r2 = c, runes, s, detail, fwd, rev
				}
				w := mirrorWitness(sc, sr, ss)
				w.Args["original_pattern"] = c.fwd.Src
				w.Args["original_input"] = string(runes)
				w.Args["origin"] = origin
				l.Violate(core.Violation{Kind: "mirror-image-mismatch", Detail: d2, Observed: r2, Expected: f2, Witness: w})
				l.NontrivialN(nontriv)
				return
			}
			if hit {
				nontriv++
				// the match chains of the two images (empty-match stepping, \G-free bump-along)
				d, incon, n := mirrorChain(c, runes)
				l.Eval(1)
				l.Count("mirror_chains", 1)
				l.Count("mirror_chain_matches", int64(n))
				if incon != "" {
					l.Inconclusive(incon)
				} else if d != "" {
					if k := r.KnownClass("nonboundary-auto-atomic"); k != nil && mirrorChainExplainedByK1(c, runes) {
						r.KnownHit(k.ID)
						continue
					}
					w := mirrorWitness(c, runes, 0)
					w.Args["chain"] = true
					w.Args["origin"] = origin
					l.Violate(core.Violation{Kind: "mirror-image-chain-mismatch", Detail: d, Witness: w})
					l.NontrivialN(nontriv)
					return
				}
			}
		}
		l.NontrivialN(nontriv)
	})
}
