package main

import (
	"encoding/json"
	"fmt"
	"math/rand"
	"unicode"

	regexp2 "github.com/dlclark/regexp2/v2"
	"github.com/dlclark/regexp2/v2/syntax"

	"verif/internal/core"
	"verif/internal/gen"
	"verif/internal/mon"
	"verif/internal/ref"
)

// C16: class membership through every lookup path against set algebra over
// Go's unicode tables.

func init() {
	register("C16", runC16, replayC16)
}

var c16Singles = []rune{0, 1, 9, 10, 13, 32, '!', '-', '0', '5', '9', 'A', 'B', 'Z', '[', '\\', ']', '^', '_', 'a', 'b', 'k', 's', 'z', '{', 0x7f, 0x80,
	0xA0, 0xB5, 0xDF, 0xE9, 0xFF, 0x100, 0x130, 0x131, 0x17F, 0x1C5, 0x24F, 0x250, 0x370, 0x3B1, 0x3C2, 0x3C3, 0x436, 0x1E9E, 0x2000, 0x200C, 0x200D, 0x2028, 0x212A, 0x3000,
	0xD7FF, 0xD800, 0xD801, 0xDBFF, 0xDC00, 0xDFFE, 0xDFFF, 0xE000, 0xFEFF, 0xFFFD, 0xFFFE, 0xFFFF, 0x10000, 0x10001, 0x1F600, 0xE0001, 0x10FFFE, 0x10FFFF}

var c16Props = []string{"L", "Lu", "Ll", "Lt", "Lm", "Lo", "M", "Mn", "N", "Nd", "Nl", "No", "P", "Pc", "Pd", "S", "Sm", "Sc", "Z", "Zs", "C", "Cc", "Cf", "Co",
	"Greek", "Cyrillic", "Latin", "Han", "Arabic", "Hiragana"}

type c16Gen struct {
	rng  *rand.Rand
	ic   bool
	ecma bool
	re2  bool
}

func (g *c16Gen) single() rune {
	if g.ic {
		pool := []rune("abcdefxyzABCDEFXYZ019_-! \n")
		if g.rng.Intn(4) == 0 {
			i := g.rng.Intn(len(gen.PairLower))
			if g.rng.Intn(2) == 0 {
				return gen.PairLower[i]
			}
			return gen.PairUpper[i]
		}
		return pool[g.rng.Intn(len(pool))]
	}
	if g.rng.Intn(3) == 0 {
		return rune(g.rng.Intn(0x250))
	}
	return c16Singles[g.rng.Intn(len(c16Singles))]
}

func (g *c16Gen) item() gen.ClassItem {
	for {
		switch g.rng.Intn(12) {
		case 0, 1, 2:
			return gen.ClassItem{T: "r", Lo: g.single(), Sp: g.rng.Intn(8)}
		case 3, 4, 5:
			a, b := g.single(), g.single()
			if g.ic {
				// ranges with ASCII endpoints only
				asc := []rune("09afAFazAZ!/:@")
				a, b = asc[g.rng.Intn(len(asc))], asc[g.rng.Intn(len(asc))]
			} else {
				switch g.rng.Intn(6) {
				case 0:
					a = 0
				case 1:
					b = unicode.MaxRune
				case 2:
					b = a + rune(g.rng.Intn(3))
				}
			}
			if a > b {
				a, b = b, a
			}
			if b > unicode.MaxRune {
				b = unicode.MaxRune
			}
			return gen.ClassItem{T: "range", Lo: a, Hi: b, Sp: g.rng.Intn(32)}
		case 6, 7:
			names := "dDwWsS"
			return gen.ClassItem{T: "esc", Name: string(names[g.rng.Intn(len(names))])}
		case 8, 9:
			if g.ecma {
				continue
			}
			name := c16Props[g.rng.Intn(len(c16Props))]

			return gen.ClassItem{T: "prop", Name: name, Neg: g.rng.Intn(3) == 0}
		case 10:
			if g.re2 {
				names := []string{"alpha", "digit", "alnum", "upper", "lower", "space", "punct", "word", "xdigit", "blank", "cntrl", "graph", "print", "ascii"}
				return gen.ClassItem{T: "posix", Name: names[g.rng.Intn(len(names))], Neg: !g.ic && g.rng.Intn(4) == 0}
			}
		case 11:
			// "everything but ..." shapes that trigger the normalisations
			if g.ic {
				continue
			}
			c := g.single()
			if c == 0 || c >= unicode.MaxRune {
				continue
			}
			if g.rng.Intn(2) == 0 {
				return gen.ClassItem{T: "range", Lo: 0, Hi: c - 1}
			}
			return gen.ClassItem{T: "range", Lo: c + 1, Hi: unicode.MaxRune}
		}
	}
}

func (g *c16Gen) class(depth int) *gen.Node {
	n := &gen.Node{K: gen.KClass, Neg: g.rng.Intn(4) == 0}
	cnt := 1 + g.rng.Intn(4)
	for i := 0; i < cnt; i++ {
		n.Items = append(n.Items, g.item())
	}
	if !g.ic && g.rng.Intn(5) == 0 {
		// "a category, then everything but one rune": both halves around the same rune, in either
		// order, after a shorthand / property (the shape the canonicalisation special-cases)
		c := g.single()
		if c > 0 && c < unicode.MaxRune && !(c >= 0xD7FF && c <= 0xE000) {
			lo := gen.ClassItem{T: "range", Lo: 0, Hi: c - 1, Sp: 15}
			hi := gen.ClassItem{T: "range", Lo: c + 1, Hi: unicode.MaxRune, Sp: 15}
			var cat gen.ClassItem
			if g.ecma || g.rng.Intn(2) == 0 {
				cat = gen.ClassItem{T: "esc", Name: string("dDwWsS"[g.rng.Intn(6)])}
			} else {
				cat = gen.ClassItem{T: "prop", Name: c16Props[g.rng.Intn(len(c16Props))], Neg: g.rng.Intn(3) == 0}
			}
			var items []gen.ClassItem
			switch g.rng.Intn(4) {
			case 0:
				items = []gen.ClassItem{cat, lo, hi}
			case 1:
				items = []gen.ClassItem{cat, hi, lo}
			case 2:
				items = []gen.ClassItem{lo, cat, hi}
			default:
				items = []gen.ClassItem{lo, hi, cat}
			}
			if g.rng.Intn(2) == 0 {
				n.Items = items
				n.Neg = g.rng.Intn(6) == 0
			} else {
				n.Items = append(n.Items, items...)
			}
		}
	}
	if g.ic && g.rng.Intn(6) == 0 {
		// the complement of an ASCII letter range written as two ranges ("everything but A-Z"):
		// normalised to a negated range while the class is built, then case-expanded
		lo := rune('A' + g.rng.Intn(20))
		hi := lo + rune(g.rng.Intn(6))
		if g.rng.Intn(2) == 0 {
			lo, hi = lo+32, hi+32
		}
		n.Items = append([]gen.ClassItem{{T: "range", Lo: 0, Hi: lo - 1, Sp: 15}, {T: "range", Lo: hi + 1, Hi: unicode.MaxRune, Sp: 15}}, n.Items...)
	}
	if depth > 0 && !g.ecma && g.rng.Intn(4) == 0 {
		n.Sub = g.class(depth - 1)
	}
	return n
}

// surrogates cannot be spelled in a Go string; keep class endpoints off them
func classHasSurrogate(n *gen.Node) bool {
	for _, it := range n.Items {
		for _, r := range []rune{it.Lo, it.Hi} {
			if r >= 0xD800 && r <= 0xDFFF {
				return true
			}
		}
	}
	return n.Sub != nil && classHasSurrogate(n.Sub)
}

func forceHexSpelling(n *gen.Node) {
	for i := range n.Items {
		switch n.Items[i].T {
		case "r":
			n.Items[i].Sp = 3
		case "range":
			n.Items[i].Sp = 3 + 4*3
		}
	}
	if n.Sub != nil {
		forceHexSpelling(n.Sub)
	}
}

type c16Case struct {
	node   *gen.Node
	src    string // "[...]"
	opts   int
	ic     bool
	d      ref.Dialect
	set    *syntax.CharSet // parsed class (nil when it reduced to a single rune)
	one    rune
	isOne  bool
	notOne bool
	setBM  *syntax.CharSet // after PrepareCharSetASCIIBitmaps
	reA    *regexp2.Regexp // \A[...]\z
	reL    *regexp2.Regexp // [...]+
	reP    *regexp2.Regexp // x*[...]
	reN    *regexp2.Regexp // \A[...]\z without ASCII bitmaps

	// a near-twin of the class placed next to it in one pattern: the twin differs by a subtraction
	// (added or removed) or by a surrogate bound, so that anything that identifies the two -
	// coalescing of adjacent equal sets, the writer's set table - shows
	node2    *gen.Node
	src2     string
	reAB     *regexp2.Regexp // \A[class][twin]\z
	reBA     *regexp2.Regexp // \A[twin][class]\z
	adjProbe []rune

	// the class as one branch of an alternation of single-rune branches, which the compiler merges
	// into ONE set: behind two halves that together hold every rune but `hole` (the accumulated set
	// flips to its negated form before the class is added), and in front of them
	hole       rune
	reU1, reU2 *regexp2.Regexp // \A(?:[\x00-h1]|[h2-\x{10FFFF}]|[class])\z , \A(?:[class]|\n|[\x00-h1]|[h2-\x{10FFFF}])\z
}

// twinOf derives the near-twin; nil when the class offers nothing to vary.
func twinOf(node *gen.Node) (*gen.Node, []rune) {
	t := node.Clone()
	// a surrogate bound moved to another surrogate
	for i, it := range t.Items {
		for _, e := range []*rune{&t.Items[i].Lo, &t.Items[i].Hi} {
			if *e >= 0xD800 && *e <= 0xDFFF && (it.T == "r" || it.T == "range") {
				old := *e
				nw := 0xD800 + (old-0xD800+0x3FF)%0x800
				if it.T == "r" {
					t.Items[i].Lo, t.Items[i].Hi = nw, 0
				} else if e == &t.Items[i].Lo && nw <= t.Items[i].Hi || e == &t.Items[i].Hi && nw >= t.Items[i].Lo {
					*e = nw
				} else {
					continue
				}
				return t, []rune{old, nw, old + 1, nw - 1}
			}
		}
	}
	if t.Sub != nil {
		// the subtraction removed
		var probe []rune
		for _, it := range t.Sub.Items {
			if it.T == "r" || it.T == "range" {
				probe = append(probe, it.Lo)
			}
		}
		t.Sub = nil
		if len(probe) == 0 {
			return nil, nil
		}
		return t, probe
	}
	// a subtraction of one member added
	for _, it := range t.Items {
		if it.T == "r" || it.T == "range" {
			t.Sub = &gen.Node{K: gen.KClass, Items: []gen.ClassItem{{T: "r", Lo: it.Lo, Sp: 3}}}
			return t, []rune{it.Lo}
		}
	}
	return nil, nil
}

func buildC16(node *gen.Node, opts int) (*c16Case, error) {
	c := &c16Case{node: node, opts: opts, ic: opts&int(regexp2.IgnoreCase) != 0,
		d: ref.Dialect{RE2: opts&int(regexp2.RE2) != 0, ECMA: opts&int(regexp2.ECMAScript) != 0}}
	gen.Annotate(node, envOf(opts))
	c.src = gen.Print(node, gen.PrintOpts{})
	tree, err := mon.ParseLocked(c.src, syntax.ParseOptions{RegexOptions: syntax.RegexOptions(opts)})
	if err != nil {
		return c, err
	}
	n := tree.Root
	for n != nil && (n.T == syntax.NtCapture || n.T == syntax.NtGroup) && len(n.Children) == 1 {
		n = n.Children[0]
	}
	switch {
	case n.T == syntax.NtSet && n.Set != nil:
		cp := n.Set.Copy()
		c.set = &cp
	case n.T == syntax.NtOne:
		c.isOne, c.one = true, n.Ch
	case n.T == syntax.NtNotone:
		c.notOne, c.one = true, n.Ch
	}
	code, err := syntax.Write(tree)
	if err == nil && c.set != nil {
		code.PrepareCharSetASCIIBitmaps()
		for _, s := range code.Sets {
			if s != nil && s.Equals(c.set) {
				c.setBM = s
				break
			}
		}
	}
	comp := func(p string, copts int) *regexp2.Regexp {
		re, err := mon.Compile(p, opts, copts)
		if err != nil {
			return nil
		}
		return re
	}
	c.reA = comp(`\A`+c.src+`\z`, 0)
	c.reL = comp(c.src+`+`, 0)
	c.reP = comp(string(rune(0xF0000))+`*`+c.src, 0)
	c.reN = comp(`\A`+c.src+`\z`, mon.CONoASCIIBitmap)
	if c.reA == nil || c.reL == nil || c.reP == nil || c.reN == nil {
		return c, fmt.Errorf("a use of the class does not compile")
	}
	if !c.d.ECMA && !c.ic {
		c.hole = 'm'
		for _, it := range node.Items {
			if (it.T == "r" || it.T == "range") && it.Lo > 1 && it.Lo < 0x10FFFE && !(it.Lo >= 0xD7FE && it.Lo <= 0xE001) {
				c.hole = it.Lo + 1
				break
			}
		}
		halves := fmt.Sprintf(`[\x00-\x{%X}]|[\x{%X}-\x{10FFFF}]`, c.hole-1, c.hole+1)
		c.reU1 = comp(`\A(?:`+halves+`|`+c.src+`)\z`, 0)
		c.reU2 = comp(`\A(?:`+c.src+`|\n|`+halves+`)\z`, 0)
	}
	if !c.d.ECMA {
		if t, probe := twinOf(node); t != nil {
			gen.Annotate(t, envOf(opts))
			if classHasSurrogate(t) {
				forceHexSpelling(t)
			}
			c.node2, c.adjProbe = t, probe
			c.src2 = gen.Print(t, gen.PrintOpts{})
			c.reAB = comp(`\A`+c.src+c.src2+`\z`, 0)
			c.reBA = comp(`\A`+c.src2+c.src+`\z`, 0)
			if c.reAB == nil || c.reBA == nil {
				c.node2 = nil
			}
		}
	}
	return c, nil
}

// check compares every lookup path with set algebra for rune r.
func (c *c16Case) check(r rune, paths func(string)) string {
	want := ref.ClassMatch(c.node, r, c.ic, c.d)
	bad := func(path string, got bool) string {
		return fmt.Sprintf("%s says %v for U+%04X, set algebra over the parts says %v", path, got, r, want)
	}
	if c.set != nil {
		paths("CharIn")
		if got := c.set.CharIn(r); got != want {
			return bad("CharSet.CharIn on the parsed class", got)
		}
	} else if c.isOne || c.notOne {
		paths("singleton")
		got := (r == c.one) != c.notOne
		if got != want {
			return bad("the class reduced to a single-rune node which", got)
		}
	}
	if c.setBM != nil {
		paths("CharIn+bitmap")
		if got := c.setBM.CharIn(r); got != want {
			return bad("CharSet.CharIn after PrepareCharSetASCIIBitmaps", got)
		}
	}
	in := []rune{r}
	for _, p := range []struct {
		name string
		re   *regexp2.Regexp
	}{{`\A[...]\z`, c.reA}, {`[...]+`, c.reL}, {`x*[...]`, c.reP}, {`\A[...]\z without ASCII bitmap`, c.reN}} {
		paths("match:" + p.name)
		got, err := p.re.MatchRunes(in)
		if err != nil {
			return "MatchRunes error: " + err.Error()
		}
		if got != want {
			return bad("MatchRunes of "+p.name, got)
		}
	}
	for ui, re := range []*regexp2.Regexp{c.reU1, c.reU2} {
		if re == nil {
			continue
		}
		for _, x := range []rune{r, c.hole} {
			wantU := x != c.hole || ref.ClassMatch(c.node, x, c.ic, c.d) || (ui == 1 && x == '\n')
			paths("match:alternation-merged-into-one-set")
			if got, err := re.MatchRunes([]rune{x}); err == nil && got != wantU {
				return fmt.Sprintf("MatchRunes of %s on U+%04X says %v; the branches are every rune but U+%04X, and the class (set algebra says %v for it)", re.String(), x, got, c.hole, ref.ClassMatch(c.node, x, c.ic, c.d))
			}
		}
	}
	if c.node2 != nil {
		for _, w := range append([]rune{r}, c.adjProbe...) {
			if w < 0 || w > unicode.MaxRune {
				continue
			}
			w2 := ref.ClassMatch(c.node2, w, c.ic, c.d)
			paths("match:adjacent-twin")
			if got, err := c.reAB.MatchRunes([]rune{r, w}); err == nil && got != (want && w2) {
				return fmt.Sprintf("MatchRunes of \\A%s%s\\z on U+%04X U+%04X says %v; set algebra: first class %v, second class %v", c.src, c.src2, r, w, got, want, w2)
			}
			if got, err := c.reBA.MatchRunes([]rune{w, r}); err == nil && got != (want && w2) {
				return fmt.Sprintf("MatchRunes of \\A%s%s\\z on U+%04X U+%04X says %v; set algebra: first class %v, second class %v", c.src2, c.src, w, r, got, w2, want)
			}
		}
	}
	return ""
}

func c16Witness(c *c16Case, r rune) core.Witness {
	ast, _ := json.Marshal(c.node)
	return core.Witness{Pattern: c.src, AST: ast, Options: c.opts, InputRune: []int32{int32(r)}}
}

func replayC16(w core.Witness) string {
	var node gen.Node
	if err := json.Unmarshal(w.AST, &node); err != nil {
		return "witness has no AST"
	}
	c, err := buildC16(&node, w.Options)
	if err != nil {
		return "class does not compile: " + err.Error()
	}
	for _, r := range w.InputRune {
		if d := c.check(rune(r), func(string) {}); d != "" {
			return d
		}
	}
	return ""
}

func runC16(r *core.Run) int {
	r.ReplayKnown(replayC16)
	nCls := r.Pick(20000, 60000)
	base := rand.New(rand.NewSource(r.Seed*49979687 + 16)).Int63()
	// rune domain
	var common []rune
	for c := rune(0); c <= 0x24F; c++ {
		common = append(common, c)
	}
	var sampled []rune
	for c := rune(0x250); c <= unicode.MaxRune; c += 997 {
		sampled = append(sampled, c)
	}
	sampled = append(sampled, c16Singles...)
	var pairDomain []rune
	for c := rune(0); c < 0x80; c++ {
		pairDomain = append(pairDomain, c)
	}
	pairDomain = append(pairDomain, gen.PairLower...)
	pairDomain = append(pairDomain, gen.PairUpper...)
	pairDomain = append(pairDomain, 0x0301, 0x1F600, 0xFFFD)
	exhaustiveAll := !r.Quick()
	r.Parallel(nCls, func(i int, l *core.Local) {
		rng := rand.New(rand.NewSource(base + int64(i)*1000003))
		opts := 0
		switch rng.Intn(8) {
		case 0, 1:
			opts |= int(regexp2.IgnoreCase)
		case 2:
			opts |= int(regexp2.ECMAScript)
		case 3:
			opts |= int(regexp2.RE2)
		case 4:
			opts |= int(regexp2.RE2 | regexp2.IgnoreCase)
		}
		g := &c16Gen{rng: rng, ic: opts&int(regexp2.IgnoreCase) != 0, ecma: opts&int(regexp2.ECMAScript) != 0, re2: opts&int(regexp2.RE2) != 0}
		node := g.class(2)
		if classHasSurrogate(node) {
			if g.ecma || g.ic {
				return
			}
			forceHexSpelling(node) // a surrogate cannot be spelled raw in a Go string
			l.Count("classes_with_surrogate_bounds", 1)
		}
		if g.ecma {
			forceHexSpelling(node) // \x{..} is not ECMAScript syntax; use plain spellings
			for i := range node.Items {
				node.Items[i].Sp = 0
			}
		}
		c, err := buildC16(node, opts)
		if err != nil {
			l.Count("class_rejected", 1)
			if !g.ecma {
				l.Violate(core.Violation{Kind: "class-rejected", Detail: err.Error(), Witness: c16Witness(c, 0)})
			}
			return
		}
		if !r.ClaimPattern(fmt.Sprintf("%d/%s", opts, c.src)) {
			return
		}
		l.Count("classes", 1)
		l.Count("options_"+optName(opts), 1)
		if c.set == nil {
			l.Count("classes_reduced_to_single_rune", 1)
		}
		if node.Sub != nil {
			l.Count("classes_with_subtraction", 1)
		}
		// domain: common + endpoints±1 + sampled (+ everything on the direct path in the thorough tier)
		var dom []rune
		if g.ic {
			dom = pairDomain
		} else {
			dom = append(dom, common...)
			var ends func(n *gen.Node)
			ends = func(n *gen.Node) {
				for _, it := range n.Items {
					for _, e := range []rune{it.Lo, it.Hi} {
						for d := rune(-1); d <= 1; d++ {
							if e+d >= 0 && e+d <= unicode.MaxRune {
								dom = append(dom, e+d)
							}
						}
					}
				}
				if n.Sub != nil {
					ends(n.Sub)
				}
			}
			ends(node)
			dom = append(dom, sampled...)
		}
		members := 0
		paths := func(p string) { l.Count("path_"+p, 1) }
		for _, ch := range dom {
			l.Eval(1)
			if d := c.check(ch, paths); d != "" {
				l.Violate(core.Violation{Kind: "class-membership", Detail: d, Witness: c16Witness(c, ch)})
				return
			}
			if ref.ClassMatch(node, ch, c.ic, c.d) {
				members++
			}
		}
		if exhaustiveAll && !g.ic && c.set != nil && i%4 == 0 {
			// every code point on the direct path
			l.Count("classes_checked_on_all_code_points", 1)
			for ch := rune(0); ch <= unicode.MaxRune; ch++ {
				want := ref.ClassMatch(node, ch, false, c.d)
				if got := c.set.CharIn(ch); got != want {
					l.Violate(core.Violation{Kind: "class-membership", Detail: fmt.Sprintf("CharSet.CharIn says %v for U+%04X, set algebra says %v", got, ch, want), Witness: c16Witness(c, ch)})
					return
				}
				if c.setBM != nil && c.setBM.CharIn(ch) != want {
					l.Violate(core.Violation{Kind: "class-membership", Detail: fmt.Sprintf("CharIn after bitmap preparation differs for U+%04X", ch), Witness: c16Witness(c, ch)})
					return
				}
			}
			l.Eval(int64(unicode.MaxRune) + 1)
		}
		if members > 0 && members < len(dom) {
			l.NontrivialN(1)
			l.Sample(map[string]any{"class": c.src, "options": opts, "members_in_domain": members, "domain": len(dom)})
		}
	})
	r.Extras["bounds"] = map[string]any{"classes": nCls, "domain": "U+0000-U+024F exhaustive + all item endpoints +-1 + every 997th code point + specials; IgnoreCase: ASCII + simple-pair letters", "all_code_points_direct_path": exhaustiveAll}
	return r.Finish(
		"random class expressions (runes, ranges incl. overlapping/adjacent/everything-but shapes, shorthand, \\p{..} categories and scripts, POSIX names in RE2 mode, nested subtraction, negation) under None / IgnoreCase / ECMAScript / RE2; every rune of the domain through every lookup path (parsed CharSet.CharIn, after ASCII bitmap preparation, MatchRunes of \\A[..]\\z, [..]+, x*[..], and \\A[..]\\z compiled without bitmaps); evaluation = one (class, rune) judged on all paths; non-trivial = distinct class with both members and non-members in the domain",
		[]string{"set algebra uses Go's unicode tables (shared with the engine)", "IgnoreCase cases are limited to ASCII ranges and simple-pair letters as the property states"},
		map[string]int64{"evaluations": 100000, "distinct_nontrivial": 300, "path_CharIn": 10000, "path_CharIn+bitmap": 10000})
}
