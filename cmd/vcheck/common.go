package main

import (
	"fmt"
	"math/rand"
	"time"
	"unicode/utf8"

	regexp2 "github.com/dlclark/regexp2/v2"

	"verif/internal/core"
	"verif/internal/gen"
	"verif/internal/ref"
)

// patCase is one pattern under test in the engine-against-itself checks.
type patCase struct {
	src    string
	opts   int
	pat    *gen.Pattern // nil for corpus patterns
	origin string       // "template:<name>", "random", "corpus:<from>"
	corp   *gen.CorpusPattern
}

var fullLetters = []rune("abcxyAB01_- \n")

// fullProfile is the full-syntax profile: nullable loops, \G, balancing groups,
// Unicode classes, look-behind, conditionals, inline options, comments.
func fullProfile(rng *rand.Rand) *gen.Profile {
	k := 2 + rng.Intn(4)
	var letters []rune
	for len(letters) < k {
		if rng.Intn(8) == 0 {
			letters = append(letters, poolWide[rng.Intn(len(poolWide))])
		} else {
			letters = append(letters, fullLetters[rng.Intn(len(fullLetters))])
		}
	}
	return &gen.Profile{
		Depth: 1 + rng.Intn(3), MaxKids: 3, Letters: letters,
		Dot: true, Classes: true, Esc: true, Props: []string{"L", "Lu", "Ll", "Nd", "Greek", "P", "IsGreek"}[:6], Subtract: true,
		Anchors: []string{"^", "$", `\A`, `\z`, `\Z`, `\b`, `\B`, `\G`},
		Groups:  true, Named: true, NonCap: true, ExplicitNum: rng.Intn(4) == 0,
		LookAhead: true, LookBehind: true, Atomic: true, Backrefs: true, CondRef: true, CondExpr: true,
		InlineOpts: rng.Intn(3) == 0, OptLetters: "imsnx", Comments: rng.Intn(5) == 0,
		Balancing: rng.Intn(3) == 0,
		Nullable:  true, Lazy: true, Spellings: true,
	}
}

var allOptionBits = []regexp2.RegexOptions{regexp2.IgnoreCase, regexp2.Multiline, regexp2.ExplicitCapture, regexp2.Singleline,
	regexp2.IgnorePatternWhitespace, regexp2.RightToLeft, regexp2.ECMAScript, regexp2.RE2, regexp2.Unicode}

func randomOpts(rng *rand.Rand, p int) int {
	o := 0
	for _, b := range allOptionBits {
		if rng.Intn(100) < p {
			o |= int(b)
		}
	}
	// Unicode is only meaningful together with ECMAScript
	if o&int(regexp2.Unicode) != 0 && o&int(regexp2.ECMAScript) == 0 {
		o &^= int(regexp2.Unicode)
	}
	return o
}

// makePattern produces pattern number i: templates, random full-syntax ASTs and
// corpus patterns in turn. mix = weights (template, random, corpus).
func makePattern(i int, rng *rand.Rand, mix [3]int, optP int) *patCase {
	total := mix[0] + mix[1] + mix[2]
	pick := i % total
	opts := randomOpts(rng, optP)
	switch {
	case i%32 == 5 && mix[0] > 0:
		// the threshold family, walked through deterministically (counts and literal lengths around
		// the constants of the analysers, also under IgnoreCase)
		t := &gen.T{R: rng, Let: []rune("abxzAB01")}
		root := t.ThresholdNth(i / 32)
		opts &^= int(regexp2.ECMAScript | regexp2.Unicode | regexp2.IgnorePatternWhitespace)
		p := gen.Finish(root, envOf(opts), false, gen.PrintOpts{})
		if p == nil {
			return nil
		}
		return &patCase{src: p.Src, opts: opts, pat: p, origin: "template:threshold-count"}
	case i%40 == 9 && mix[0] > 0:
		// two narrow families get a fixed share: references to explicitly numbered groups with holes
		// in the numbering, and balancing groups whose pop can fail after their body matched
		name := []string{"sparse-numbered-ref", "balancing-ending"}[(i/40)%2]
		t := &gen.T{R: rng, Let: []rune("abc")}
		opts &^= int(regexp2.ECMAScript | regexp2.Unicode | regexp2.RE2 | regexp2.ExplicitCapture)
		p := gen.Finish(t.Template(templateIndex(name)), envOf(opts), false, gen.PrintOpts{})
		if p == nil {
			return nil
		}
		return &patCase{src: p.Src, opts: opts, pat: p, origin: "template:" + name}
	case pick < mix[0]:
		t := &gen.T{R: rng, Let: fullProfile(rng).Letters}
		k := rng.Intn(len(gen.TemplateNames))
		root := t.Template(k)
		opts &^= int(regexp2.ECMAScript | regexp2.Unicode)
		p := gen.Finish(root, envOf(opts), false, gen.PrintOpts{})
		if p == nil {
			return nil
		}
		return &patCase{src: p.Src, opts: opts, pat: p, origin: "template:" + gen.TemplateNames[k]}
	case pick < mix[0]+mix[1]:
		g := gen.NewG(rng, fullProfile(rng))
		p := g.Random(envOf(opts), false)
		return &patCase{src: p.Src, opts: opts, pat: p, origin: "random"}
	default:
		c := gen.LoadCorpus(core.RepoDir())
		if len(c.Patterns) == 0 {
			return nil
		}
		cp := &c.Patterns[int(uint64(i/total)*2654435761+uint64(rng.Intn(1<<20)))%len(c.Patterns)]
		o := cp.Opts
		if rng.Intn(3) == 0 {
			o |= opts
		}
		return &patCase{src: cp.Src, opts: o, origin: "corpus:" + cp.From, corp: cp}
	}
}

func templateIndex(name string) int {
	for i, n := range gen.TemplateNames {
		if n == name {
			return i
		}
	}
	return 0
}

// offsetStep is the distance to the next start offset tried on an input of n runes: every
// offset for ordinary inputs, the first few and then about sixteen more for the long inputs of the
// threshold templates (a naive scan from every offset of a 2,600-rune text is quadratic).
func offsetStep(n, s int) int {
	if n <= 200 || s < 3 {
		return 1
	}
	if st := n / 16; s+st <= n || s == n {
		return st
	}
	return n - s
}

// noteCtx records the pattern a worker is busy with, so that a panic inside the
// case is reported with it.
func noteCtx(l *core.Local, pc *patCase) {
	if pc != nil {
		l.Ctx = fmt.Sprintf("pattern=%q options=%#x origin=%s", pc.src, pc.opts, pc.origin)
	}
}

// inputsFor builds the inputs of a pattern: bounded-exhaustive strings over a
// small pattern-derived alphabet plus pattern-directed and decorated strings.
func inputsFor(pc *patCase, rng *rand.Rand, exhLen, nDirected int) [][]rune {
	var out [][]rune
	seen := map[string]bool{}
	add := func(r []rune) {
		k := string(r)
		if !seen[k] {
			seen[k] = true
			out = append(out, append([]rune(nil), r...))
		}
	}
	if pc.pat == nil {
		c := gen.LoadCorpus(core.RepoDir())
		return gen.InputsForText(*pc.corp, c.Strings, rng, nDirected+10)
	}
	d := ref.Dialect{RE2: pc.opts&int(regexp2.RE2) != 0, ECMA: pc.opts&int(regexp2.ECMAScript) != 0}
	alpha := gen.Alphabet(pc.pat.AST, false)
	ex := append([]rune(nil), alpha...)
	rng.Shuffle(len(ex), func(a, b int) { ex[a], ex[b] = ex[b], ex[a] })
	if len(ex) > 3 {
		ex = ex[:3]
	}
	if exhLen > 0 {
		gen.Exhaustive(ex, exhLen, add)
	}
	sm := &gen.Sampler{R: rng, Alpha: alpha, Class: func(n *gen.Node, ch rune) bool { return ref.ClassMatch(n, ch, n.E.IC, d) }}
	if pc.origin == "template:threshold-count" {
		// the counts go up to 1100: the matching text must fit (fewer of these long inputs)
		sm.Limit = 2600
		if nDirected > 8 {
			nDirected = 8
		}
	}
	for k := 0; k < nDirected; k++ {
		d := sm.Directed(pc.pat.AST, gen.Decorations)
		add(d)
		if k%3 == 0 && len(d) > 1 {
			// the same text cut short at either end: the input ends (or begins) in the middle of
			// what the pattern expects next
			cut := 1 + rng.Intn(len(d)-1)
			add(d[:cut])
			if k%6 == 0 {
				add(d[cut:])
			}
		}
	}
	return out
}

func validRunes(r []rune) bool {
	for _, c := range r {
		if !utf8.ValidRune(c) {
			return false
		}
	}
	return true
}

func witnessOf(pc *patCase, runes []rune, start int) core.Witness {
	w := core.Witness{Pattern: pc.src, Options: pc.opts, Start: start, Input: string(runes)}
	for _, r := range runes {
		w.InputRune = append(w.InputRune, int32(r))
	}
	w.Args = map[string]any{"origin": pc.origin}
	return w
}

func witnessRunes(w core.Witness) []rune {
	if w.InputRune != nil {
		r := make([]rune, len(w.InputRune))
		for i, c := range w.InputRune {
			r[i] = rune(c)
		}
		return r
	}
	return []rune(w.Input)
}

func optName(o int) string { return fmt.Sprintf("%#x", o) }

// byteOffsets maps rune index -> byte offset of string(runes) (len+1 entries).
func byteOffsets(runes []rune) []int {
	off := make([]int, len(runes)+1)
	b := 0
	for i, r := range runes {
		off[i] = b
		b += utf8.RuneLen(r)
	}
	off[len(runes)] = b
	return off
}

// shrinkCase reduces a failing (pattern, input, start) of an engine-against-itself
// check. fails must be deterministic. Corpus patterns (no AST) only get their
// input shrunk.
func shrinkCase(pc *patCase, runes []rune, start int, fails func(src string, runes []rune, start int) bool) (*patCase, []rune, int) {
	best := pc
	tryAST := func(a *gen.Node, in []rune, st int) *patCase {
		p := gen.Finish(a.Clone(), envOf(pc.opts), false, gen.PrintOpts{})
		if p == nil {
			return nil
		}
		if !fails(p.Src, in, st) {
			return nil
		}
		return &patCase{src: p.Src, opts: pc.opts, pat: p, origin: pc.origin}
	}
	if pc.pat != nil {
		a := gen.Shrink(pc.pat.AST, func(*gen.Node) bool { return true }, func(a *gen.Node) bool { return tryAST(a, runes, start) != nil }, 500)
		if nb := tryAST(a, runes, start); nb != nil {
			best = nb
		}
	}
	in := append([]rune(nil), runes...)
	for changed := true; changed; {
		changed = false
		for i := 0; i < len(in); i++ {
			cand := append(append([]rune(nil), in[:i]...), in[i+1:]...)
			st := start
			if i < start {
				st--
			}
			if st > len(cand) {
				st = len(cand)
			}
			if fails(best.src, cand, st) {
				in, start, changed = cand, st, true
				break
			}
		}
	}
	if best.pat != nil {
		a := gen.Shrink(best.pat.AST, func(*gen.Node) bool { return true }, func(a *gen.Node) bool { return tryAST(a, in, start) != nil }, 300)
		if nb := tryAST(a, in, start); nb != nil {
			best = nb
		}
	}
	return best, in, start
}

// shortTimeout bounds one engine call in the relational checks; a call that
// hits it is inconclusive. Generated inputs are at most a few dozen runes, so a
// call that needs longer is catastrophic backtracking, not slowness.
const shortTimeout = 400 * time.Millisecond
