package main

import (
	"encoding/json"
	"fmt"
	"math/rand"
	"strings"
	"time"

	regexp2 "github.com/dlclark/regexp2/v2"

	"verif/internal/core"
	"verif/internal/gen"
	"verif/internal/mon"
	"verif/internal/ref"
)

// C18: the three spellings of an option set (compile option, leading (?O),
// wrapping (?O:...)) and the scoping of (?-O).

func init() {
	register("C18", runC18, replayC18)
}

var c18Letters = []struct {
	ch  byte
	opt regexp2.RegexOptions
}{{'i', regexp2.IgnoreCase}, {'m', regexp2.Multiline}, {'s', regexp2.Singleline}, {'n', regexp2.ExplicitCapture}, {'x', regexp2.IgnorePatternWhitespace}}

// a call that needs longer than this on inputs of a few dozen runes is catastrophic backtracking
const c18Timeout = 60 * time.Millisecond

func lettersOf(o int) string {
	s := ""
	for _, l := range c18Letters {
		if o&int(l.opt) != 0 {
			s += string(l.ch)
		}
	}
	return s
}

type c18Obs struct {
	names string
	nums  string
}

func groupMapOf(re *regexp2.Regexp) string {
	return fmt.Sprint(re.GetGroupNumbers(), re.GetGroupNames())
}

// spellingsAgree compiles the spellings of (P, O) and compares them on inputs.
func spellingsAgree(p string, o, base int, inputs [][]rune, st func(string)) (detail, incon string, matched int) {
	return spellingsAgreeW(p, o, base, inputs, st, true)
}

// spellingsAgreeW: wrap=false leaves the wrapping spelling out (harvested patterns holding a '#':
// once x is in effect - by the option set or by an inline (?x) of the pattern itself - an
// unterminated comment would swallow the wrapper's closing parenthesis)
func spellingsAgreeW(p string, o, base int, inputs [][]rune, st func(string), wrap bool) (detail, incon string, matched int) {
	ls := lettersOf(o)
	type variant struct {
		name string
		src  string
		opts int
	}
	vs := []variant{{"compile option", p, base | o}}
	if ls != "" {
		vs = append(vs, variant{"leading (?" + ls + ")", "(?" + ls + ")" + p, base})
	}
	if wrap {
		if ls != "" {
			vs = append(vs, variant{"wrapping (?" + ls + ":...)", "(?" + ls + ":" + p + ")", base})
		} else {
			vs = append(vs, variant{"wrapping (?:...)", "(?:" + p + ")", base})
		}
	}
	if len(vs) == 1 {
		return "", "", 0
	}
	var res []*regexp2.Regexp
	for _, v := range vs {
		re, err := mon.Compile(v.src, v.opts, 0)
		if err != nil {
			if len(res) == 0 {
				return "", "pattern-rejected", 0 // not a pattern under O at all
			}
			return fmt.Sprintf("%q compiles with the options given to Compile but the spelling %s (%q) is rejected: %v", p, v.name, v.src, err), "", 0
		}
		re.MatchTimeout = c18Timeout
		res = append(res, re)
	}
	gm := groupMapOf(res[0])
	for i := 1; i < len(res); i++ {
		st("group-map")
		if g := groupMapOf(res[i]); g != gm {
			return fmt.Sprintf("group map of %q with options %s: compile option gives %s, %s gives %s", p, ls, gm, vs[i].name, g), "", 0
		}
	}
	for _, in := range inputs {
		for start := 0; start <= len(in); start += 1 + len(in)/3 {
			m0, err := res[0].FindRunesMatchStartingAt(in, start)
			if err != nil {
				if mon.ResourceErr(err) {
					return "", "engine-" + mon.ErrClass(err), matched
				}
				return "error: " + err.Error(), "", matched
			}
			want := mon.ObsAll(m0)
			if m0 != nil {
				matched++
			}
			for i := 1; i < len(res); i++ {
				st("find")
				m, err := res[i].FindRunesMatchStartingAt(in, start)
				if err != nil {
					if mon.ResourceErr(err) {
						return "", "engine-" + mon.ErrClass(err), matched
					}
					return "error: " + err.Error(), "", matched
				}
				if got := mon.ObsAll(m); got != want {
					return fmt.Sprintf("on %q from %d: %q compiled with options %q gives %s, the spelling %s gives %s", string(in), start, p, ls, want, vs[i].name, got), "", matched
				}
			}
		}
	}
	return "", "", matched
}

// localFormAgrees compares an AST compiled under the option set o with its local
// form (internal/gen/localform.go) compiled without options.
func localFormAgrees(root *gen.Node, o int, inputs [][]rune, st func(string)) (detail, incon, src, lsrc string) {
	env := envOf(o)
	p1 := gen.Finish(root.Clone(), env, false, gen.PrintOpts{})
	if p1 == nil {
		return "", "not-printable", "", ""
	}
	p2 := gen.Finish(gen.LocalForm(root, env), gen.Env{}, false, gen.PrintOpts{})
	if p2 == nil {
		return "", "not-printable", p1.Src, ""
	}
	r1, e1 := mon.Compile(p1.Src, o, 0)
	r2, e2 := mon.Compile(p2.Src, 0, 0)
	if e1 != nil || e2 != nil {
		if e1 != nil && e2 != nil {
			return "", "pattern-rejected", p1.Src, p2.Src
		}
		return fmt.Sprintf("%q with options %q compiles: %v; its local form %q compiles: %v", p1.Src, lettersOf(o), e1 == nil, p2.Src, e2 == nil), "", p1.Src, p2.Src
	}
	r1.MatchTimeout, r2.MatchTimeout = c18Timeout, c18Timeout
	st("local-form-group-map")
	if g1, g2 := groupMapOf(r1), groupMapOf(r2); g1 != g2 {
		return fmt.Sprintf("group maps differ: %q with options %q -> %s, its local form %q -> %s", p1.Src, lettersOf(o), g1, p2.Src, g2), "", p1.Src, p2.Src
	}
	for _, in := range inputs {
		for start := 0; start <= len(in); start += 1 + len(in)/3 {
			st("local-form-find")
			m1, err1 := r1.FindRunesMatchStartingAt(in, start)
			m2, err2 := r2.FindRunesMatchStartingAt(in, start)
			if err1 != nil || err2 != nil {
				return "", "engine-resource", p1.Src, p2.Src
			}
			if o1, o2 := mon.ObsAll(m1), mon.ObsAll(m2); o1 != o2 {
				return fmt.Sprintf("on %q from %d: %q with options %q gives %s but its local form %q (every leaf with its own option wrapper, no scopes) gives %s", string(in), start, p1.Src, lettersOf(o), o1, p2.Src, o2), "", p1.Src, p2.Src
			}
		}
	}
	return "", "", p1.Src, p2.Src
}

// scopingAgrees checks (?O:A(?-O)B)C against (?O:A)BC.
func scopingAgrees(a, b, c string, o, base int, inputs [][]rune, st func(string)) (detail, incon string) {
	ls := lettersOf(o)
	if ls == "" {
		return "", ""
	}
	p1 := "(?" + ls + ":" + a + "(?-" + ls + ")" + b + ")" + c
	p2 := "(?" + ls + ":" + a + ")" + b + c
	r1, e1 := mon.Compile(p1, base, 0)
	r2, e2 := mon.Compile(p2, base, 0)
	if e1 != nil || e2 != nil {
		if e1 != nil && e2 != nil {
			return "", "pattern-rejected"
		}
		return fmt.Sprintf("%q compiles: %v, %q compiles: %v", p1, e1 == nil, p2, e2 == nil), ""
	}
	r1.MatchTimeout, r2.MatchTimeout = c18Timeout, c18Timeout
	if g1, g2 := groupMapOf(r1), groupMapOf(r2); g1 != g2 {
		return fmt.Sprintf("group maps differ: %q -> %s, %q -> %s", p1, g1, p2, g2), ""
	}
	for _, in := range inputs {
		st("scoping")
		m1, err1 := r1.FindRunesMatch(in)
		m2, err2 := r2.FindRunesMatch(in)
		if err1 != nil || err2 != nil {
			return "", "engine-resource"
		}
		if o1, o2 := mon.ObsAll(m1), mon.ObsAll(m2); o1 != o2 {
			return fmt.Sprintf("on %q: %q gives %s but %q gives %s ((?-%s) must only switch the options off for the rest of its group)", string(in), p1, o1, p2, o2, ls), ""
		}
	}
	return "", ""
}

func replayC18(w core.Witness) string {
	o := 0
	if v, ok := w.Args["option_set"].(float64); ok {
		o = int(v)
	}
	if w.Kind == "scope-rest" {
		return replayC18ScopeRest(w)
	}
	in := [][]rune{witnessRunes(w)}
	if w.Kind == "local-form" {
		var ast gen.Node
		if json.Unmarshal(w.AST, &ast) != nil {
			return "witness has no AST"
		}
		var inputs [][]rune
		for _, extra := range []string{"a\nb", "AB\nab", "a b#c\n", "A\n", "ab ab", " a", "abd", "abde"} {
			inputs = append(inputs, []rune(extra))
		}
		d, _, _, _ := localFormAgrees(&ast, w.Options, inputs, func(string) {})
		return d
	}
	if w.Kind == "scoping" {
		a, _ := w.Args["A"].(string)
		b, _ := w.Args["B"].(string)
		c, _ := w.Args["C"].(string)
		d, _ := scopingAgrees(a, b, c, o, w.Options, in, func(string) {})
		return d
	}
	wrap := true
	if v, ok := w.Args["wrap"].(bool); ok {
		wrap = v
	}
	d, _, _ := spellingsAgreeW(w.Pattern, o, w.Options, in, func(string) {}, wrap)
	return d
}

func c18Profile(rng *rand.Rand) *gen.Profile {
	var letters []rune
	pool := []rune("abAB \n#.")
	k := 3 + rng.Intn(3)
	for len(letters) < k {
		letters = append(letters, pool[rng.Intn(len(pool))])
	}
	return &gen.Profile{
		Depth: 1 + rng.Intn(2), MaxKids: 3, Letters: letters,
		Dot: true, Classes: true, Esc: true, PairRanges: true,
		Anchors: []string{"^", "$", `\A`, `\z`, `\Z`, `\b`},
		Groups:  true, Named: rng.Intn(2) == 0, NonCap: true,
		LookAhead: true, LookBehind: true, Atomic: true, Backrefs: rng.Intn(3) == 0,
		CondExpr: rng.Intn(2) == 0, CondRef: rng.Intn(4) == 0,
		InlineOpts: rng.Intn(3) != 0, OptLetters: "imsnx", Comments: true,
		Lazy: true, Nullable: rng.Intn(3) == 0,
	}
}

func runC18(r *core.Run) int {
	r.ReplayKnown(replayC18)
	nPat := r.Pick(4000, 60000)
	nDirected := r.Pick(10, 20)
	base := rand.New(rand.NewSource(r.Seed*198491317 + 18)).Int63()
	runC18ScopeRest(r)
	r.Parallel(nPat, func(i int, l *core.Local) {
		rng := rand.New(rand.NewSource(base + int64(i)*1000003))
		var src string
		var pc *patCase
		baseOpts := 0
		if rng.Intn(40) == 0 {
			// rare: under RE2 + IgnoreCase a negated shorthand (\W, \D, \S) is a range over all of
			// Unicode that the engine case-expands rune by rune (about 20 ms per compile)
			baseOpts = int(regexp2.RE2)
		}
		if i%5 == 4 {
			pc = makePattern(i, rng, [3]int{0, 0, 1}, 0)
			noteCtx(l, pc)
			if pc == nil {
				return
			}
			src = pc.src
			pc.opts = 0
		} else {
			g := gen.NewG(rng, c18Profile(rng))
			root := g.Alt(g.P.Depth)
			// a back-reference to an unnamed group would dangle under n
			p := gen.Finish(root, gen.Env{N: true}, false, gen.PrintOpts{RawX: true})
			if p == nil {
				return
			}
			p = gen.Finish(root, gen.Env{}, false, gen.PrintOpts{RawX: true})
			if p == nil {
				return
			}
			src = p.Src
			pc = &patCase{src: src, pat: p, origin: "random"}
		}
		if !r.ClaimPattern(fmt.Sprintf("%d/%s", baseOpts, src)) {
			return
		}
		inputs := inputsFor(pc, rng, 2, nDirected)
		// inputs that make the options observable
		for _, extra := range []string{"a\nb", "AB\nab", "a b#c\n", "A\n", "ab ab", " a"} {
			inputs = append(inputs, []rune(extra))
		}
		l.Count("patterns", 1)
		st := func(k string) { l.Count("law_"+k, 1) }
		var nontriv int64
		for o := 0; o < 32; o++ {
			oset := 0
			for bi, lt := range c18Letters {
				if o&(1<<bi) != 0 {
					oset |= int(lt.opt)
				}
			}
			wrap := pc.pat != nil || !strings.Contains(src, "#")
			detail, incon, matched := spellingsAgreeW(src, oset, baseOpts, inputs, st, wrap)
			l.Eval(1)
			if incon == "pattern-rejected" {
				l.Count("pattern_rejected_under_option_set", 1)
				continue
			}
			if incon != "" {
				l.Inconclusive(incon)
				break
			}
			if matched > 0 {
				nontriv++
			}
			if detail != "" {
				w := core.Witness{Pattern: src, Options: baseOpts, Args: map[string]any{"option_set": oset, "wrap": wrap}}
				// find the failing input for the replay
				for _, in := range inputs {
					if d, _, _ := spellingsAgreeW(src, oset, baseOpts, [][]rune{in}, func(string) {}, wrap); d != "" {
						w.Input = string(in)
						for _, c := range in {
							w.InputRune = append(w.InputRune, int32(c))
						}
						break
					}
				}
				l.Violate(core.Violation{Kind: "option-spellings-differ", Detail: detail, Witness: w})
				return
			}
		}
		l.NontrivialN(nontriv)
		if nontriv > 0 {
			l.Sample(map[string]any{"pattern": src, "base_options": baseOpts, "option_sets_with_a_match": nontriv})
		}
		// local-form law: the AST under an option set against the scope-free rewriting of it
		if pc.pat != nil && pc.pat.AST != nil {
			for k := 0; k < 4; k++ {
				oset := 0
				for _, lt := range c18Letters {
					if rng.Intn(2) == 0 {
						oset |= int(lt.opt)
					}
				}
				if k == 0 {
					oset |= int(regexp2.ExplicitCapture)
				}
				detail, incon, s1, s2 := localFormAgrees(pc.pat.AST, oset, inputs, st)
				l.Eval(1)
				if incon != "" {
					l.Count("local_form_"+incon, 1)
					continue
				}
				l.Count("local_form_compared", 1)
				if detail != "" {
					ast, _ := json.Marshal(pc.pat.AST)
					l.Violate(core.Violation{Kind: "local-form-differs", Detail: detail, Witness: core.Witness{Kind: "local-form", Pattern: s1, AST: ast, Options: oset, Args: map[string]any{"local_form": s2, "option_set": oset}}})
					return
				}
			}
		}
		// directed family for the local-form law: an option scope (n, i, x, ...) that holds a bare
		// conditional and is closed by its group, followed by plain capturing groups - no (?...)
		// construct anywhere else, so nothing re-synchronises the parser's one-shot state
		{
			letters := []rune("abAB1 ")
			lit := func() *gen.Node { return gen.L(letters[rng.Intn(len(letters))]) }
			var gid int
			var plain func(d int) *gen.Node
			plain = func(d int) *gen.Node {
				c := gen.Cat()
				for k := rng.Intn(3); k >= 0; k-- {
					switch x := rng.Intn(7); {
					case x == 0:
						c.Kids = append(c.Kids, gen.Esc(string("dws"[rng.Intn(3)])))
					case x == 1:
						c.Kids = append(c.Kids, gen.Rep(lit(), rng.Intn(2), 1+rng.Intn(2)))
					case x == 2 && d > 0:
						gid++
						c.Kids = append(c.Kids, &gen.Node{K: gen.KGroup, Capture: true, GID: gid, Kids: []*gen.Node{plain(d - 1)}})
					case x == 3:
						c.Kids = append(c.Kids, gen.Dot())
					default:
						c.Kids = append(c.Kids, lit())
					}
				}
				return c
			}
			condAtom := []*gen.Node{gen.Dot(), gen.Esc("w"), gen.Esc("d"), gen.Cls(false, gen.CR('a'), gen.CR('b'))}[rng.Intn(4)]
			cond := &gen.Node{K: gen.KCondExpr, Bare: true, Kids: []*gen.Node{gen.Look(true, false, condAtom), plain(1), plain(0)}}
			on := []string{"n", "n", "in", "nx", "i", "s"}[rng.Intn(6)]
			inner := gen.Cat(plain(1), cond, plain(1))
			var scope *gen.Node
			if rng.Intn(2) == 0 {
				scope = &gen.Node{K: gen.KOptGroup, On: on, Kids: []*gen.Node{inner}}
			} else {
				// (A(?n)B): the switch reaches the closing parenthesis of the enclosing group
				gid++
				scope = &gen.Node{K: gen.KGroup, Capture: true, GID: gid, Kids: []*gen.Node{gen.Cat(plain(0), &gen.Node{K: gen.KOptSet, On: on}, inner)}}
			}
			gid++
			after := &gen.Node{K: gen.KGroup, Capture: true, GID: gid, Kids: []*gen.Node{plain(0)}}
			root := gen.Cat(plain(1), scope, plain(0), after, plain(1))
			dInputs := append([][]rune(nil), inputs...)
			if p := gen.Finish(root.Clone(), gen.Env{}, false, gen.PrintOpts{}); p != nil {
				dInputs = append(dInputs, inputsFor(&patCase{src: p.Src, pat: p}, rng, 3, 12)...)
			}
			for _, oset := range []int{0, int(regexp2.IgnoreCase), int(regexp2.IgnorePatternWhitespace), int(regexp2.Singleline | regexp2.Multiline)} {
				detail, incon, s1, s2 := localFormAgrees(root, oset, dInputs, st)
				l.Eval(1)
				if incon != "" {
					l.Count("local_form_directed_"+incon, 1)
					continue
				}
				l.Count("local_form_directed_compared", 1)
				if detail != "" {
					ast, _ := json.Marshal(root)
					l.Violate(core.Violation{Kind: "local-form-differs", Detail: detail, Witness: core.Witness{Kind: "local-form", Pattern: s1, AST: ast, Options: oset, Args: map[string]any{"local_form": s2, "option_set": oset, "family": "scope-with-bare-conditional"}}})
					return
				}
			}
		}
		// scoping law on three independent atoms
		if pc.pat != nil && i%2 == 0 {
			g := gen.NewG(rng, c18Profile(rng))
			g.P.Backrefs = false
			parts := make([]string, 3)
			for k := range parts {
				for {
					root := g.Alt(1)
					if p := gen.Finish(root, gen.Env{}, false, gen.PrintOpts{RawX: true}); p != nil && !strings.Contains(p.Src, "|") {
						parts[k] = "(?:" + p.Src + ")"
						break
					}
				}
			}
			oset := 0
			for _, lt := range c18Letters {
				if rng.Intn(2) == 0 {
					oset |= int(lt.opt)
				}
			}
			d, incon := scopingAgrees(parts[0], parts[1], parts[2], oset, baseOpts, inputs, st)
			l.Eval(1)
			if incon != "" && incon != "pattern-rejected" {
				l.Inconclusive(incon)
			}
			if d != "" {
				l.Violate(core.Violation{Kind: "option-scoping", Detail: d, Witness: core.Witness{Kind: "scoping", Pattern: parts[0] + parts[1] + parts[2], Options: baseOpts, Args: map[string]any{"option_set": oset, "A": parts[0], "B": parts[1], "C": parts[2]}}})
			}
		}
	})
	_ = ref.IsWord
	r.Extras["bounds"] = map[string]any{"patterns": nPat, "option_subsets": 32, "spellings": 3, "inputs_per_pattern": nDirected + 15}
	return r.Finish(
		"random ASTs whose meaning depends on the options (letters of both cases, ^ $ ., unnamed groups, raw whitespace and newline-terminated # comments, nested inline on/off groups) and corpus patterns; for each of the 32 subsets O of {i,m,s,n,x}: Compile(P,O), Compile((?O)P) and Compile((?O:P)) must have the same group map and the same find results (position and all captures) on every input and several start offsets; plus (?O:A(?-O)B)C against (?O:A)BC on independent atoms; plus, for 34 constructs K that the parser handles on paths of their own (back-references in four spellings incl. (?P=n), conditionals, balancing / named / atomic groups, look-arounds, comments, nested switches, classes; RE2 spellings under RE2), all 31 non-empty O and three scope spellings, PRE(?O:Kx)REST against PRE(?O:Kx)(?-O:REST) with a REST that shows every option should it outlive the group; evaluation = one (pattern, option subset); non-trivial = distinct (pattern, option subset) with at least one match",
		[]string{"relation between three compilations of the same text: no external oracle needed"},
		map[string]int64{"evaluations": 20000, "distinct_nontrivial": 5000, "law_scoping": 1000, "law_group-map": 10000, "law_scope-rest": 50000})
}
