package main

import (
	"fmt"
	"math/rand"
	"sync/atomic"
	"unicode/utf8"

	regexp2 "github.com/dlclark/regexp2/v2"
	"github.com/dlclark/regexp2/v2/compat"

	"verif/internal/core"
	"verif/internal/gen"
	"verif/internal/mon"
)

// C08: structural invariants of every returned match and exactness of the
// rune->byte conversion.

func init() {
	register("C08", runC08, replayC08)
}

// wellFormed checks one match against the input it was found in.
var accessOrder atomic.Int64

func wellFormed(re *regexp2.Regexp, m *regexp2.Match, im *mon.IndexMap, how string, st func(string)) string {
	n := len(im.Runes)
	// the accessors must not depend on the order they are first used in: every other match is first
	// asked for single groups (by number, by name) and only then for the whole list
	if k := accessOrder.Add(1); k%2 == 0 {
		nums := re.GetGroupNumbers()
		pick := nums[int(k/2)%len(nums)]
		st("single-lookup-before-Groups")
		_ = m.GroupByNumber(pick)
		if k%4 == 0 {
			_ = m.GroupByName(re.GroupNameFromNumber(pick))
		}
	}
	groups := m.Groups()
	if m.GroupCount() != len(groups) {
		return fmt.Sprintf("%s: GroupCount()=%d but Groups() has %d entries", how, m.GroupCount(), len(groups))
	}
	nums := re.GetGroupNumbers()
	names := re.GetGroupNames()
	if len(nums) != len(groups) || len(names) != len(groups) {
		return fmt.Sprintf("%s: %d groups in the match, %d group numbers, %d group names", how, len(groups), len(nums), len(names))
	}
	for gi := range groups {
		g := &groups[gi]
		st("group")
		if g.Name != names[gi] {
			return fmt.Sprintf("%s: Groups()[%d].Name=%q but GetGroupNames()[%d]=%q", how, gi, g.Name, gi, names[gi])
		}
		byNum := m.GroupByNumber(nums[gi])
		if byNum == nil || len(byNum.Captures) != len(g.Captures) || byNum.Name != g.Name || byNum.RuneIndex != g.RuneIndex || byNum.RuneLength != g.RuneLength {
			return fmt.Sprintf("%s: GroupByNumber(%d) is not Groups()[%d]", how, nums[gi], gi)
		}
		// (ECMAScript: unnamed groups have no name, so the name lookup only applies to named ones;
		// duplicate names share one slot, so a name always leads to the slot listed first)
		if g.Name != "" && re.GroupNumberFromName(g.Name) == nums[gi] {
			byName := m.GroupByName(g.Name)
			if byName == nil || len(byName.Captures) != len(g.Captures) || byName.RuneIndex != g.RuneIndex || byName.RuneLength != g.RuneLength {
				return fmt.Sprintf("%s: GroupByName(%q) is not Groups()[%d]", how, g.Name, gi)
			}
		}
		if gi == 0 {
			if len(g.Captures) != 1 || g.Captures[0].RuneIndex != m.RuneIndex || g.Captures[0].RuneLength != m.RuneLength {
				return fmt.Sprintf("%s: group 0 must have exactly one capture equal to the match (%d,%d), has %v", how, m.RuneIndex, m.RuneLength, capList(g))
			}
		}
		if len(g.Captures) > 0 {
			last := g.Captures[len(g.Captures)-1]
			if g.RuneIndex != last.RuneIndex || g.RuneLength != last.RuneLength {
				return fmt.Sprintf("%s: group %d embeds capture (%d,%d) but its last capture is (%d,%d)", how, gi, g.RuneIndex, g.RuneLength, last.RuneIndex, last.RuneLength)
			}
		} else if g.RuneLength != 0 {
			return fmt.Sprintf("%s: group %d has no captures but embeds a capture of length %d", how, gi, g.RuneLength)
		}
		for ci := range g.Captures {
			c := &g.Captures[ci]
			st("capture")
			if c.RuneIndex < 0 || c.RuneLength < 0 || c.RuneIndex+c.RuneLength > n {
				return fmt.Sprintf("%s: group %d capture %d = (%d,%d) lies outside the input of %d runes", how, gi, ci, c.RuneIndex, c.RuneLength, n)
			}
			want := string(im.Runes[c.RuneIndex : c.RuneIndex+c.RuneLength])
			if c.String() != want || string(c.Runes()) != want {
				return fmt.Sprintf("%s: group %d capture %d String()/Runes() = %q/%q, the addressed slice is %q", how, gi, ci, c.String(), string(c.Runes()), want)
			}
			bi, bl := c.ByteRange()
			if bi != im.Off[c.RuneIndex] || bl != im.Off[c.RuneIndex+c.RuneLength]-im.Off[c.RuneIndex] {
				return fmt.Sprintf("%s: group %d capture %d ByteRange() = (%d,%d), the UTF-8 span of runes (%d,%d) is (%d,%d)", how, gi, ci, bi, bl, c.RuneIndex, c.RuneLength, im.Off[c.RuneIndex], im.Off[c.RuneIndex+c.RuneLength]-im.Off[c.RuneIndex])
			}
		}
	}
	return ""
}

func capList(g *regexp2.Group) string {
	s := ""
	for _, c := range g.Captures {
		s += fmt.Sprintf("(%d,%d)", c.RuneIndex, c.RuneLength)
	}
	return "[" + s + "]"
}

// matchesWellFormed walks every way a *Match can be obtained for (re, s).
func matchesWellFormed(re *regexp2.Regexp, s string, st func(string)) (detail, incon string, matches, captures int) {
	im := mon.NewIndexMap(s)
	rim := mon.RuneIndexMap(im.Runes)
	res := func(e error) bool {
		if e != nil && mon.ResourceErr(e) {
			incon = "resource-" + mon.ErrClass(e)
			return true
		}
		return false
	}
	// (called before wellFormed: it must not be the first to touch the accessors of the match)
	count := func(m *regexp2.Match) {
		matches++
		captures += m.GroupCount()
	}
	// string chain
	m, e := re.FindStringMatch(s)
	for k := 0; m != nil && e == nil && k <= len(im.Runes)+2; k++ {
		count(m)
		if d := wellFormed(re, m, im, fmt.Sprintf("FindStringMatch chain match #%d on %q", k, s), st); d != "" {
			return d, "", matches, captures
		}
		// the find-all and adapter byte indexes of the same match
		if k == 0 {
			bi, bl := m.ByteRange()
			if all, err := re.FindAllStringIndex(s, 1); err == nil && (len(all) != 1 || all[0][0] != bi || all[0][1] != bi+bl) {
				return fmt.Sprintf("first match on %q has ByteRange (%d,%d) but FindAllStringIndex(s,1) = %v", s, bi, bl, all), "", matches, captures
			}
			var ci []int
			if in, bad := guardCompat(func() { ci = compat.Wrap(re).FindStringIndex(s) }); !in && bad == "" {
				if len(ci) != 2 || ci[0] != bi || ci[1] != bi+bl {
					return fmt.Sprintf("first match on %q has ByteRange (%d,%d) but compat FindStringIndex = %v", s, bi, bl, ci), "", matches, captures
				}
			}
		}
		m, e = re.FindNextMatch(m)
	}
	if res(e) {
		return "", incon, matches, captures
	}
	// rune chain (ByteRange over a rune-slice input)
	m, e = re.FindRunesMatch(im.Runes)
	for k := 0; m != nil && e == nil && k <= len(im.Runes)+2; k++ {
		count(m)
		if d := wellFormed(re, m, rim, fmt.Sprintf("FindRunesMatch chain match #%d on %q", k, s), st); d != "" {
			return d, "", matches, captures
		}
		m, e = re.FindNextMatch(m)
	}
	if res(e) {
		return "", incon, matches, captures
	}
	// rune chain over a rune slice holding values that have no UTF-8 encoding (lone surrogates, values
	// beyond U+10FFFF, negative values): ByteRange counts each as U+FFFD, like string([]rune)
	if len(im.Runes) > 0 {
		hostile := append([]rune(nil), im.Runes...)
		h := 0
		for _, r := range hostile {
			h = h*31 + int(r)
		}
		if h < 0 {
			h = -h
		}
		bad := []rune{0xD800, 0xDFFF, 0x110000, 0x7FFFFFFF, -1, 0xDBFF}
		hostile[h%len(hostile)] = bad[h%len(bad)]
		if h%3 == 0 {
			hostile[(h/7)%len(hostile)] = bad[(h/5)%len(bad)]
		}
		him := mon.RuneIndexMap(hostile)
		st("rune-chain-with-unencodable-runes")
		var hm *regexp2.Match
		var he error
		if p, stack := core.Guard(func() {
			hm, he = re.FindRunesMatch(hostile)
			for k := 0; hm != nil && he == nil && k <= len(hostile)+2; k++ {
				count(hm)
				if d := wellFormed(re, hm, him, fmt.Sprintf("FindRunesMatch chain match #%d on the rune slice %v", k, hostile), st); d != "" {
					detail = d
					return
				}
				hm, he = re.FindNextMatch(hm)
			}
		}); p != nil {
			return fmt.Sprintf("FindRunesMatch chain on the rune slice %v panicked: %v\n%s", hostile, p, stack), "", matches, captures
		}
		if detail != "" {
			return detail, "", matches, captures
		}
		if res(he) {
			return "", incon, matches, captures
		}
	}
	// StartingAt from the middle
	if len(im.Runes) > 1 {
		mid := len(im.Runes) / 2
		if m, e := re.FindStringMatchStartingAt(s, im.Off[mid]); e == nil && m != nil {
			count(m)
			if d := wellFormed(re, m, im, fmt.Sprintf("FindStringMatchStartingAt(%q,%d)", s, im.Off[mid]), st); d != "" {
				return d, "", matches, captures
			}
		}
	}
	// matches handed to a ReplaceFunc evaluator
	var bad string
	k := 0
	_, e = re.ReplaceFunc(s, func(mm regexp2.Match) string {
		count(&mm)
		if bad == "" {
			bad = wellFormed(re, &mm, im, fmt.Sprintf("ReplaceFunc evaluator match #%d on %q", k, s), st)
		}
		k++
		return ""
	}, -1, -1)
	if res(e) {
		return "", incon, matches, captures
	}
	if bad != "" {
		return bad, "", matches, captures
	}
	return "", "", matches, captures
}

func replayC08(w core.Witness) string {
	re, err := mon.Compile(w.Pattern, w.Options, w.COpts)
	if err != nil {
		return ""
	}
	s := w.Input
	if w.InputHex != "" {
		s = unhex(w.InputHex)
	}
	d, _, _, _ := matchesWellFormed(re, s, func(string) {})
	return d
}

// captureProfile emphasises balancing groups and captures in loops / look-behind.
func captureProfile(rng *rand.Rand) *gen.Profile {
	p := fullProfile(rng)
	p.Balancing = rng.Intn(2) == 0
	p.Groups = true
	p.Named = true
	p.RepeatP = 45
	p.Depth = 2 + rng.Intn(2)
	return p
}

func runC08(r *core.Run) int {
	r.ReplayKnown(replayC08)
	nPat := r.Pick(8000, 120000)
	nDirected := r.Pick(20, 40)
	base := rand.New(rand.NewSource(r.Seed*982451653 + 8)).Int63()
	r.Parallel(nPat, func(i int, l *core.Local) {
		rng := rand.New(rand.NewSource(base + int64(i)*1000003))
		var pc *patCase
		if i%4 == 3 {
			pc = makePattern(i, rng, [3]int{1, 0, 2}, 10)
			noteCtx(l, pc)
		} else {
			opts := randomOpts(rng, 10)
			g := gen.NewG(rng, captureProfile(rng))
			p := g.Random(envOf(opts), false)
			pc = &patCase{src: p.Src, opts: opts, pat: p, origin: "random-captures"}
		}
		if pc == nil || !r.ClaimPattern(fmt.Sprintf("%d/%s", pc.opts, pc.src)) {
			return
		}
		copts := []int{0, 0, mon.COMaintainOrder}[rng.Intn(3)]
		re, err := mon.Compile(pc.src, pc.opts, copts)
		if err != nil {
			l.Count("compile_rejected", 1)
			return
		}
		re.MatchTimeout = shortTimeout
		l.Count("patterns", 1)
		st := func(k string) { l.Count("checked_"+k, 1) }
		var nontriv int64
		timeouts := 0
		for k, runes := range inputsFor(pc, rng, 2, nDirected) {
			if r.Stopped() {
				return
			}
			if !validRunes(runes) {
				continue
			}
			s := string(runes)
			if k%3 == 2 {
				s = corrupt(s, rng)
				l.Count("inputs_with_invalid_utf8", 1)
			}
			detail, incon, matches, captures := matchesWellFormed(re, s, st)
			l.Eval(1)
			l.Count("matches_inspected", int64(matches))
			l.Count("captures_inspected", int64(captures))
			if incon != "" {
				l.Inconclusive(incon)
				timeouts++
				if timeouts >= 3 {
					break
				}
				continue
			}
			if matches > 0 {
				nontriv++
				if nontriv == 1 {
					l.Sample(map[string]any{"pattern": pc.src, "options": pc.opts, "input": s, "matches": matches, "captures": captures})
				}
			}
			if detail != "" {
				w := witnessOf(pc, nil, 0)
				w.COpts = copts
				if utf8.ValidString(s) {
					w.Input = s
				} else {
					w.InputHex = fmt.Sprintf("%x", s)
				}
				l.Violate(core.Violation{Kind: "match-not-well-formed", Detail: detail, Witness: w})
				return
			}
		}
		l.NontrivialN(nontriv)
	})
	r.Extras["bounds"] = map[string]any{"patterns": nPat, "directed_inputs_per_pattern": nDirected, "invalid_utf8_share": "1/3 of inputs"}
	return r.Finish(
		"random ASTs emphasising balancing groups and captures inside loops and look-behind, templates and corpus patterns, random options, with and without MaintainCaptureOrder; inputs mix 1-4 byte runes, U+FFFD and injected invalid bytes; every *Match obtained through the string chain, the rune chain, StartingAt and the ReplaceFunc evaluator is checked (bounds, group 0, embedded last capture, names/numbers, String/Runes, ByteRange against the reference index map, agreement with FindAllStringIndex and compat FindStringIndex); evaluation = one (pattern,input); non-trivial = distinct (pattern,input) yielding at least one match",
		[]string{"reference index map: each invalid byte is one rune of width one; for rune-slice input the UTF-8 length of each rune"},
		map[string]int64{"evaluations": 20000, "distinct_nontrivial": 5000, "captures_inspected": 50000})
}
