package main

import (
	"fmt"
	"math/rand"
	"unicode"
	"unicode/utf8"

	regexp2 "github.com/dlclark/regexp2/v2"

	"verif/internal/core"
	"verif/internal/gen"
	"verif/internal/mon"
)

// C19: Escape / Unescape are inverse and Escape(s) is a literal for s.

func init() {
	register("C19", runC19, replayC19)
}

// option sets that keep literal meaning
var c19Opts = []int{0, int(regexp2.IgnorePatternWhitespace), int(regexp2.Multiline), int(regexp2.Singleline), int(regexp2.ExplicitCapture),
	int(regexp2.RightToLeft), int(regexp2.RE2), int(regexp2.IgnorePatternWhitespace | regexp2.Multiline | regexp2.Singleline),
	int(regexp2.RE2 | regexp2.IgnorePatternWhitespace), int(regexp2.RightToLeft | regexp2.IgnorePatternWhitespace | regexp2.ExplicitCapture)}

// neighbours of r used as near-misses
func nearMisses(s []rune, rng *rand.Rand) [][]rune {
	var out [][]rune
	add := func(r []rune) { out = append(out, r) }
	for i := range s {
		add(append(append([]rune(nil), s[:i]...), s[i+1:]...))                 // dropped
		add(append(append(append([]rune(nil), s[:i+1]...), s[i]), s[i+1:]...)) // doubled
		for _, repl := range []rune{s[i] + 1, s[i] - 1, gen.OtherCase(s[i]), unicode.ToUpper(s[i]), unicode.ToLower(s[i]), 0xFFFD, ' '} {
			if repl == s[i] || repl < 0 || repl > unicode.MaxRune || (repl >= 0xD800 && repl <= 0xDFFF) {
				continue
			}
			c := append([]rune(nil), s...)
			c[i] = repl
			add(c)
		}
	}
	add(append(append([]rune(nil), s...), '0'))
	add(append([]rune{'0'}, s...))
	add(append(append([]rune(nil), s...), ' '))
	add(append([]rune{'\n'}, s...))
	if len(out) > 60 {
		rng.Shuffle(len(out), func(i, j int) { out[i], out[j] = out[j], out[i] })
		out = out[:60]
	}
	return out
}

func escapeLaws(s string, rng *rand.Rand, optsList []int, st func(string)) string {
	e := regexp2.Escape(s)
	// the inverse is a function of its argument alone: a rejected text right before must leave no trace,
	// and a text with escapes of its own must read the same before and after
	if rng.Intn(3) == 0 {
		bad := []string{e + "\\", "C:\\", e + "\\x4", "q\\u12" + e, e + "\\c", "\\p{" + e, s + "\\k<", "\\x{110000}" + e}[rng.Intn(8)]
		other := []string{"\\x41\\n" + e, "\\u0041\\t\\.", "a\\+b"}[rng.Intn(3)]
		before, errBefore := regexp2.Unescape(other)
		st("after-rejected-text")
		if _, err := regexp2.Unescape(bad); err == nil {
			st("hostile-text-accepted")
		}
		after, errAfter := regexp2.Unescape(other)
		if before != after || (errBefore == nil) != (errAfter == nil) {
			return fmt.Sprintf("Unescape(%q) = %q, %v before and %q, %v after Unescape(%q)", other, before, errBefore, after, errAfter, bad)
		}
	}
	st("roundtrip")
	u, err := regexp2.Unescape(e)
	if err != nil || u != s {
		return fmt.Sprintf("Unescape(Escape(%q)) = %q, %v (Escape gave %q)", s, u, err, e)
	}
	runes := []rune(s)
	for _, o := range optsList {
		st("compile")
		re, err := mon.Compile(`\A(?:`+e+`)\z`, o, 0)
		if err != nil {
			return fmt.Sprintf("Escape(%q) = %q does not compile under options %#x: %v", s, e, o, err)
		}
		st("matches-itself")
		ok, err := re.MatchRunes(runes)
		if err != nil || !ok {
			return fmt.Sprintf("\\A(?:Escape(%q))\\z = %q does not match the string itself under options %#x (err %v)", s, re.String(), o, err)
		}
		for _, nm := range nearMisses(runes, rng) {
			if string(nm) == s {
				continue
			}
			st("rejects-near-miss")
			ok, err := re.MatchRunes(nm)
			if err != nil || ok {
				return fmt.Sprintf("\\A(?:Escape(%q))\\z (pattern %q, options %#x) also matches %q", s, re.String(), o, string(nm))
			}
		}
	}
	return ""
}

func replayC19(w core.Witness) string {
	s := string(witnessRunes(w))
	return escapeLaws(s, rand.New(rand.NewSource(1)), c19Opts, func(string) {})
}

var c19Special = []rune(`\.+*?()|[]{}^$# ` + "\t\n\r\f\v\a\x00\x1b\x7f" + "-,:<>=!&~'\"`_09azAZ")

// boundary runes of Escape's encoding ranges and printability classes
var c19Edges = []rune{0x7e, 0x7f, 0x80, 0x9f, 0xa0, 0xad, 0xff, 0x100, 0x101, 0x378, 0x379, 0x37f, 0xfff, 0x1000, 0x1001, 0x200b, 0x2028, 0x2029, 0xd7ff, 0xe000, 0xf8ff,
	0xfeff, 0xfffd, 0xfffe, 0xffff, 0x10000, 0x10001, 0x1f600, 0xe0001, 0xe007f, 0xf0000, 0x10fffe, 0x10ffff, 0x0301, 0x0600, 0x061c, 0x180e, 0x2060, 0x1d173}

func randomRune(rng *rand.Rand) rune {
	for {
		var r rune
		switch rng.Intn(10) {
		case 0, 1, 2:
			r = c19Special[rng.Intn(len(c19Special))]
		case 3, 4:
			r = c19Edges[rng.Intn(len(c19Edges))] + rune(rng.Intn(3)-1)
		case 5:
			r = rune(rng.Intn(0x100))
		case 6:
			r = rune(0x100 + rng.Intn(0xf00))
		case 7:
			r = rune(0x1000 + rng.Intn(0xf000))
		case 8:
			r = rune(0x10000 + rng.Intn(0x100000))
		case 9:
			r = []rune("0123456789abcdefABCDEF")[rng.Intn(22)] // hex digits right after an escape make a wrong width visible
		}
		if utf8.ValidRune(r) {
			return r
		}
	}
}

func runC19(r *core.Run) int {
	r.ReplayKnown(replayC19)
	nStr := r.Pick(200000, 600000)
	base := rand.New(rand.NewSource(r.Seed*217645199 + 19)).Int63()
	everyCodePoint := !r.Quick()
	total := nStr
	if everyCodePoint {
		total += (unicode.MaxRune + 1) / 64 // blocks of 64 code points
	}
	r.Parallel(total, func(i int, l *core.Local) {
		rng := rand.New(rand.NewSource(base + int64(i)*1000003))
		st := func(k string) { l.Count("law_"+k, 1) }
		if i >= nStr {
			// thorough: every single code point, alone and followed by a hex digit
			blk := rune(i-nStr) * 64
			for c := blk; c < blk+64 && c <= unicode.MaxRune; c++ {
				if !utf8.ValidRune(c) {
					continue
				}
				for _, s := range []string{string(c), string(c) + "0", string(c) + "a"} {
					l.Eval(1)
					if d := escapeLaws(s, rng, []int{0, int(regexp2.IgnorePatternWhitespace)}, st); d != "" {
						w := core.Witness{Input: s}
						for _, x := range s {
							w.InputRune = append(w.InputRune, int32(x))
						}
						l.Violate(core.Violation{Kind: "escape-law", Detail: d, Witness: w})
						return
					}
				}
			}
			l.NontrivialN(64)
			return
		}
		n := 1 + rng.Intn(6)
		var rs []rune
		for k := 0; k < n; k++ {
			rs = append(rs, randomRune(rng))
		}
		s := string(rs)
		if !r.ClaimPattern(s) {
			return
		}
		opts := []int{c19Opts[rng.Intn(len(c19Opts))], c19Opts[rng.Intn(len(c19Opts))], 0}
		// and a random subset of all options that keep literal meaning (Unicode without ECMAScript
		// changes nothing for a literal; ECMAScript reads \x{...} differently and IgnoreCase widens the
		// match, so neither is among them)
		for _, o := range []regexp2.RegexOptions{regexp2.IgnorePatternWhitespace, regexp2.Multiline, regexp2.Singleline, regexp2.ExplicitCapture, regexp2.RightToLeft, regexp2.RE2, regexp2.Unicode} {
			if rng.Intn(2) == 0 {
				opts[2] |= int(o)
			}
		}
		l.Eval(1)
		if regexp2.Escape(s) != s {
			l.NontrivialN(1)
			l.Sample(map[string]any{"string": s, "escaped": regexp2.Escape(s)})
		}
		if d := escapeLaws(s, rng, opts, st); d != "" {
			w := core.Witness{Input: s}
			for _, x := range rs {
				w.InputRune = append(w.InputRune, int32(x))
			}
			l.Violate(core.Violation{Kind: "escape-law", Detail: d, Witness: w})
		}
	})
	r.Extras["bounds"] = map[string]any{"strings": nStr, "length": "1-6 runes", "every_code_point": everyCodePoint, "option_sets": fmt.Sprintf("%d fixed + random subsets of {x,m,s,n,RightToLeft,RE2,Unicode}", len(c19Opts))}
	if everyCodePoint {
		r.Extras["exhaustive"] = false
		r.Extras["exhaustive_single_code_points"] = true
	}
	return r.Finish(
		"strings of 1-6 runes drawn from metacharacters, whitespace, controls, the boundaries of Escape's encoding ranges (0x100, 0x1000, 0x10000) +-1, unassigned and non-printable runes below and above U+FFFF, and hex digits (so a wrong escape width changes the meaning); per string: Unescape(Escape(s)) == s, for a third of them right after a text that Unescape rejects (trailing backslash, cut-off \\x / \\u / \\c / \\p{ escapes) with a well-formed escaped text read before and after the rejected one (same answer both times), \\A(?:Escape(s))\\z compiles under option sets that keep literal meaning (two of ten fixed sets plus a random subset of IgnorePatternWhitespace, Multiline, Singleline, ExplicitCapture, RightToLeft, RE2, Unicode), matches s and rejects up to 60 near-misses (rune dropped, doubled, replaced by a neighbour / other case / U+FFFD, text prepended or appended); thorough adds every code point alone and followed by a hex digit; non-trivial = distinct string that Escape actually changes",
		[]string{"valid UTF-8 strings only, as the property states"},
		map[string]int64{"evaluations": 10000, "distinct_nontrivial": 5000, "law_rejects-near-miss": 100000})
}
