package main

import (
	_ "embed"
	"fmt"
	"strings"
	"unicode"

	regexp2 "github.com/dlclark/regexp2/v2"

	"verif/internal/core"
)

// C20, named classes: \p{name} under IgnoreCase for every class name the engine accepts
// (general categories under their short and long names, scripts, binary properties,
// Sentence_Break / Word_Break / Grapheme_Cluster_Break values) against EVERY letter whose
// fold orbit is a simple pair: both members of the pair must get the same answer, in the
// spellings \p{..}, \P{..}, [^\p{..}] and [\w-[\p{..}]].
//
// c20_classnames.txt is the list of names that compiled when the list was made
// (tools_classnames.go.txt collects them from the engine's alias tables); a name the
// tree under test rejects is skipped and counted.

//go:embed c20_classnames.txt
var c20ClassNamesRaw string

// the names of known finding K5 (binary properties and Sentence_Break values that hold one
// case of a pair only and are matched as they are), normalised: lower case, no '_'
var c20KnownUnclosed = map[string]bool{
	"emoji": true, "extendedpictographic": true, "extpict": true,
	"otherlowercase": true, "otheruppercase": true, "olower": true, "oupper": true,
	"softdotted": true, "sd": true,
	"sb=lo": true, "sb=lower": true, "sb=up": true, "sb=upper": true,
	"sentencebreak=lo": true, "sentencebreak=lower": true, "sentencebreak=up": true, "sentencebreak=upper": true,
}

func normClassName(s string) string {
	return strings.ToLower(strings.ReplaceAll(strings.ReplaceAll(s, "_", ""), " ", ""))
}

func simplePairs() [][2]rune {
	var pairs [][2]rune
	for r := rune(0); r <= unicode.MaxRune; r++ {
		f := unicode.SimpleFold(r)
		if f != r && unicode.SimpleFold(f) == r && r < f {
			pairs = append(pairs, [2]rune{r, f})
		}
	}
	return pairs
}

var c20Spellings = []string{`^\p{%s}$`, `^\P{%s}$`, `^[^\p{%s}]$`, `^[\w-[\p{%s}]]$`}

// namedClassLaw returns "" when pattern (one of c20Spellings over name) treats both members of
// every simple pair alike; otherwise the first pair it splits and the number of pairs split.
func namedClassLaw(name string, sp int, pairs [][2]rune) (detail string, first [2]rune, compiled bool) {
	src := fmt.Sprintf(c20Spellings[sp], name)
	re, err := regexp2.Compile(src, regexp2.IgnoreCase)
	if err != nil {
		return "", first, false
	}
	split := 0
	for _, p := range pairs {
		a, _ := re.MatchRunes([]rune{p[0]})
		b, _ := re.MatchRunes([]rune{p[1]})
		if a != b {
			if split == 0 {
				first = p
			}
			split++
		}
	}
	if split > 0 {
		a, _ := re.MatchRunes([]rune{first[0]})
		return fmt.Sprintf("%s (IgnoreCase) splits %d simple case pairs, e.g. %q (U+%04X): match=%v but %q (U+%04X): match=%v", src, split, string(first[0]), first[0], a, string(first[1]), first[1], !a), first, true
	}
	return "", first, true
}

func replayC20Named(w core.Witness) string {
	name, _ := w.Args["class_name"].(string)
	sp := 0
	if f, ok := w.Args["spelling"].(float64); ok {
		sp = int(f)
	}
	if sp < 0 || sp >= len(c20Spellings) {
		sp = 0
	}
	d, _, _ := namedClassLaw(name, sp, simplePairs())
	return d
}

func runC20Named(r *core.Run) {
	names := strings.Fields(c20ClassNamesRaw)
	pairs := simplePairs()
	r.Parallel(len(names), func(i int, l *core.Local) {
		name := names[i]
		for sp := range c20Spellings {
			d, _, ok := namedClassLaw(name, sp, pairs)
			if !ok {
				l.Count("named_class_names_rejected_by_this_tree", 1)
				continue
			}
			l.Eval(int64(len(pairs)))
			l.Count("named_class_pair_checks", int64(len(pairs)))
			if sp == 0 {
				l.Count("named_classes", 1)
			}
			if d == "" {
				continue
			}
			if c20KnownUnclosed[normClassName(name)] {
				if k := r.KnownClass("property-class-not-case-closed"); k != nil {
					r.KnownHit(k.ID)
					continue
				}
			}
			l.Violate(core.Violation{Kind: "named-class-splits-case-pair", Detail: d, Witness: core.Witness{Pattern: fmt.Sprintf(c20Spellings[sp], name), Options: int(regexp2.IgnoreCase), Args: map[string]any{"class_name": name, "spelling": sp}}})
			return
		}
	})
}

// C20, every simple pair: for each of the 1,397 letters pairs (lo, up) of Unicode whose fold orbit
// has exactly two members, a handful of one-letter constructs written with either member,
// raw or as \x{..}, must treat every case variant of the input alike - and, except for the
// negated forms, match it.
var c20PairConstructs = []struct {
	format    string // %[1]s = the letter
	runes     int    // letters in the input
	mustMatch int    // 1 = must match, 0 = must not match, -1 = invariance only
}{
	{`^%[1]s$`, 1, 1},
	{`^[%[1]s]$`, 1, 1},
	{`^[^%[1]s]$`, 1, 0},
	{`^[%[1]s-%[1]s]$`, 1, 1},
	{`^%[1]s%[1]s$`, 2, 1},
	{`^(%[1]s)\1$`, 2, 1},
	{`^(?<n>[%[1]s])\k<n>$`, 2, 1},
	{`^[\w-[%[1]s]]$`, 1, 0},
	{`^[\W%[1]s]$`, 1, 1},
	{`%[1]s%[1]s%[1]s`, 3, 1},
	{`(?<=%[1]s)%[1]s`, 2, 1},
	{`^(?:%[1]s|_)+$`, 2, 1},
}

func allPairsLaw(lo, up rune, ci int, opts int) (detail string, compared int) {
	c := c20PairConstructs[ci]
	if opts&int(regexp2.RightToLeft) != 0 {
		// right to left the group is matched before what stands to its left: the reference goes first
		switch c.format {
		case `^(%[1]s)\1$`:
			c.format = `^\1(%[1]s)$`
		case `^(?<n>[%[1]s])\k<n>$`:
			c.format = `^\k<n>(?<n>[%[1]s])$`
		}
	}
	var spellings []string
	for _, r := range []rune{lo, up} {
		spellings = append(spellings, string(r))
		if opts&int(regexp2.ECMAScript) == 0 {
			spellings = append(spellings, fmt.Sprintf(`\x{%X}`, r)) // ECMAScript reads \x as two hex digits
		}
		if r <= 0xFFFF {
			spellings = append(spellings, fmt.Sprintf(`\u%04X`, r))
		}
	}
	// every case variant of an input of c.runes letters
	var inputs [][]rune
	for mask := 0; mask < 1<<c.runes; mask++ {
		in := make([]rune, c.runes)
		for k := range in {
			in[k] = lo
			if mask&(1<<k) != 0 {
				in[k] = up
			}
		}
		inputs = append(inputs, in)
	}
	first := ""
	firstSrc := ""
	for _, sp := range spellings {
		src := fmt.Sprintf(c.format, sp)
		re, err := regexp2.Compile(src, regexp2.RegexOptions(opts))
		if err != nil {
			return fmt.Sprintf("%q (options %#x) is rejected: %v", src, opts, err), compared
		}
		for _, in := range inputs {
			text := in
			if c.format[0] != '^' {
				text = append([]rune("_z "), in...) // something to search through first
			}
			var ok bool
			if compared%2 == 0 {
				ok, err = re.MatchRunes(text)
			} else {
				ok, err = re.MatchString(string(text))
			}
			if err != nil {
				return fmt.Sprintf("%q on %q: %v", src, string(text), err), compared
			}
			compared++
			got := fmt.Sprint(ok)
			if c.mustMatch >= 0 && ok != (c.mustMatch == 1) {
				return fmt.Sprintf("%q (options %#x) on %q (U+%04X / U+%04X are each other's case partners): match=%v, expected %v", src, opts, string(text), lo, up, ok, c.mustMatch == 1), compared
			}
			if first == "" {
				first, firstSrc = got, src
			} else if got != first {
				return fmt.Sprintf("%q on %q: match=%v, but %q on the same letters in another case: match=%s (U+%04X / U+%04X are each other's case partners)", src, string(text), ok, firstSrc, first, lo, up), compared
			}
		}
	}
	return "", compared
}

func replayC20AllPairs(w core.Witness) string {
	lo, _ := w.Args["pair_lo"].(float64)
	ci, _ := w.Args["construct"].(float64)
	up := unicode.SimpleFold(rune(lo))
	if int(ci) < 0 || int(ci) >= len(c20PairConstructs) || up == rune(lo) {
		return "witness is not a pair"
	}
	d, _ := allPairsLaw(rune(lo), up, int(ci), w.Options)
	return d
}

func runC20AllPairs(r *core.Run) {
	pairs := simplePairs()
	optSets := []int{int(regexp2.IgnoreCase), int(regexp2.IgnoreCase | regexp2.RightToLeft)}
	if !r.Quick() {
		optSets = append(optSets, int(regexp2.IgnoreCase|regexp2.ECMAScript), int(regexp2.IgnoreCase|regexp2.RE2), int(regexp2.IgnoreCase|regexp2.Multiline|regexp2.Singleline|regexp2.ExplicitCapture))
	}
	r.Parallel(len(pairs), func(i int, l *core.Local) {
		p := pairs[i]
		l.Count("all_pairs_pairs", 1)
		for ci := range c20PairConstructs {
			for _, o := range optSets {
				if o&int(regexp2.ECMAScript|regexp2.RE2) != 0 && strings.Contains(c20PairConstructs[ci].format, "-[") {
					continue // class subtraction is not part of those dialects' syntax
				}
				if o&int(regexp2.ExplicitCapture) != 0 && strings.Contains(c20PairConstructs[ci].format, `\1`) {
					continue
				}
				d, n := allPairsLaw(p[0], p[1], ci, o)
				l.Eval(int64(n))
				l.Count("all_pairs_checks", int64(n))
				if d != "" {
					l.Violate(core.Violation{Kind: "simple-pair-not-folded", Detail: d, Witness: core.Witness{Pattern: fmt.Sprintf(c20PairConstructs[ci].format, string(p[0])), Options: o, Args: map[string]any{"pair_lo": int(p[0]), "construct": ci}}})
					return
				}
			}
		}
	})
}

// C20, ranges around every cased letter: (?i)[lo-hi] for a window of a few code points around each
// member of each simple pair. A rune belongs to the class exactly when some member of its fold
// orbit lies in [lo, hi] (orbits of any size; windows and probes touching U+0130 / U+0131, whose
// ToLower / ToUpper leave their orbit, are left out). This walks every row of the engine's
// lower-casing table with ranges that start or end inside it.
func foldOrbit(r rune) []rune {
	o := []rune{r}
	for c := unicode.SimpleFold(r); c != r; c = unicode.SimpleFold(c) {
		o = append(o, c)
	}
	return o
}

func rangeWindowLaw(lo, hi rune, opts int) (detail string, compared int) {
	touchesDotless := func(a, b rune) bool { return a <= 0x131 && b >= 0x130 }
	if touchesDotless(lo, hi) || lo < 0 || hi > unicode.MaxRune || (lo <= 0xDFFF && hi >= 0xD800) {
		return "", 0
	}
	src := fmt.Sprintf(`^[\x{%X}-\x{%X}]$`, lo, hi)
	re, err := regexp2.Compile(src, regexp2.RegexOptions(opts))
	if err != nil {
		return fmt.Sprintf("%q is rejected: %v", src, err), 0
	}
	probes := map[rune]bool{}
	for r := lo - 3; r <= hi+3; r++ {
		for _, q := range foldOrbit(r) {
			probes[q] = true
			probes[q-1], probes[q+1] = true, true
		}
	}
	for p := range probes {
		if p < 0 || p > unicode.MaxRune || (p >= 0xD800 && p <= 0xDFFF) || p == 'i' || p == 'I' || p == 0x130 || p == 0x131 {
			continue
		}
		want := false
		for _, q := range foldOrbit(p) {
			want = want || (q >= lo && q <= hi)
		}
		got, err := re.MatchRunes([]rune{p})
		if err != nil {
			continue
		}
		compared++
		if got != want {
			return fmt.Sprintf("%q (options %#x) on %q (U+%04X): match=%v, but its case variants %U are %sin the range", src, opts, string(p), p, got, foldOrbit(p), map[bool]string{true: "", false: "not "}[want]), compared
		}
	}
	return "", compared
}

func replayC20RangeWindow(w core.Witness) string {
	lo, _ := w.Args["range_lo"].(float64)
	hi, _ := w.Args["range_hi"].(float64)
	d, _ := rangeWindowLaw(rune(lo), rune(hi), w.Options)
	return d
}

func runC20RangeWindows(r *core.Run) {
	pairs := simplePairs()
	r.Parallel(len(pairs), func(i int, l *core.Local) {
		for _, L := range pairs[i] {
			for _, w := range [][2]rune{{L - 1, L}, {L, L + 1}, {L - 2, L + 2}, {L - 1, L + 1}, {L, L + 2}, {L - 2, L}} {
				for _, o := range []int{int(regexp2.IgnoreCase), int(regexp2.IgnoreCase | regexp2.RightToLeft)} {
					d, n := rangeWindowLaw(w[0], w[1], o)
					l.Eval(int64(n))
					l.Count("range_window_checks", int64(n))
					if n > 0 {
						l.Count("range_windows", 1)
					}
					if d != "" {
						l.Violate(core.Violation{Kind: "ignorecase-range-membership", Detail: d, Witness: core.Witness{Pattern: fmt.Sprintf(`^[\x{%X}-\x{%X}]$`, w[0], w[1]), Options: o, Args: map[string]any{"range_lo": int(w[0]), "range_hi": int(w[1])}}})
						return
					}
				}
			}
		}
	})
}
