package main

import (
	"fmt"
	"math/rand"
	"os"
	"sort"
	"strings"
	"sync"
	"time"

	regexp2 "github.com/dlclark/regexp2/v2"

	"verif/internal/core"
	"verif/internal/gen"
	"verif/internal/mon"
)

// C13: the backtracking stack limit is honoured and otherwise invisible.

func init() {
	register("C13", runC13, replayC13)
}

// per-Regexp maximum of the allocation events reported by the verif hook
var trackMax sync.Map // *regexp2.Regexp -> *int64 (guarded by trackMu)
var trackMu sync.Mutex

func installTrackHook() {
	regexp2.VerifSetTrackAllocHook(func(re *regexp2.Regexp, n int) {
		trackMu.Lock()
		defer trackMu.Unlock()
		if v, ok := trackMax.Load(re); ok {
			p := v.(*int64)
			if int64(n) > *p {
				*p = int64(n)
			}
		}
		// Regexps that were not registered by callUnder are not tracked (and so not kept alive)
	})
}

func maxAlloc(re *regexp2.Regexp) int64 {
	trackMu.Lock()
	defer trackMu.Unlock()
	if v, ok := trackMax.Load(re); ok {
		return *v.(*int64)
	}
	return -1
}

// patterns whose limit-disabled run times out are judged with a short timeout under each limit
// (a limit error or a panic comes at once; only runs that would time out anyway are cut short)
var fastTimeout sync.Map

func compileLimit(src string, opts, limit int) (*regexp2.Regexp, error) {
	re, err := mon.Compile(src, opts, 0, regexp2.OptionMaxBacktrackingStackSize(limit))
	if err == nil {
		re.MatchTimeout = shortTimeout
		if _, ok := fastTimeout.Load(src); ok && limit >= 0 {
			re.MatchTimeout = 15 * time.Millisecond
		}
	}
	return re, err
}

// limitedCall runs the three entry points under limit L and returns their
// results (error class or observation).
type limRes struct {
	find, boolean, str string
	all, repl          string
	split, rfunc, chn  string
	alloc              int64
	panicked           string
}

func callUnder(src string, opts, limit int, runes []rune) (res limRes, re *regexp2.Regexp, err error) {
	re, err = compileLimit(src, opts, limit)
	if err != nil {
		return res, nil, err
	}
	none := int64(-1)
	trackMax.Store(re, &none)
	p, st := core.Guard(func() {
		m, e := re.FindRunesMatch(runes)
		if e != nil {
			res.find = "error:" + mon.ErrClass(e)
		} else {
			res.find = mon.ObsAll(m)
		}
		b, e := re.MatchRunes(runes)
		if e != nil {
			res.boolean = "error:" + mon.ErrClass(e)
		} else {
			res.boolean = fmt.Sprint(b)
		}
		if validRunes(runes) {
			m, e := re.FindStringMatch(string(runes))
			if e != nil {
				res.str = "error:" + mon.ErrClass(e)
			} else {
				res.str = mon.ObsAll(m)
			}
			// drivers that reuse one runner for many scans
			if a, e := re.FindAllStringIndex(string(runes), -1); e != nil {
				res.all = "error:" + mon.ErrClass(e)
			} else {
				res.all = fmt.Sprint(a)
			}
			if rp, e := re.Replace(string(runes), "<$&>", -1, -1); e != nil {
				res.repl = "error:" + mon.ErrClass(e)
			} else {
				res.repl = rp
			}
			if sp, e := re.Split(string(runes), -1); e != nil {
				res.split = "error:" + mon.ErrClass(e)
			} else {
				res.split = fmt.Sprintf("%q", sp)
			}
			if rp, e := re.ReplaceFunc(string(runes), func(m regexp2.Match) string { return "[" + m.String() + "]" }, -1, -1); e != nil {
				res.rfunc = "error:" + mon.ErrClass(e)
			} else {
				res.rfunc = rp
			}
			// the chain: an error in the middle must come out as an error, not as the end of the chain
			var sb strings.Builder
			cm, ce := re.FindStringMatch(string(runes))
			for k := 0; cm != nil && ce == nil && k < len(runes)+2; k++ {
				fmt.Fprintf(&sb, "(%d,%d)", cm.RuneIndex, cm.RuneLength)
				cm, ce = re.FindNextMatch(cm)
			}
			if ce != nil {
				res.chn = "error:" + mon.ErrClass(ce)
			} else {
				res.chn = sb.String()
			}
		}
	})
	if p != nil {
		res.panicked = fmt.Sprintf("panic: %v\n%s", p, st)
	}
	res.alloc = maxAlloc(re)
	trackMax.Delete(re)
	return res, re, nil
}

// limitLaws judges one (pattern, input) over a set of limits.
// allowNoBase: judge limits although the limit-disabled run times out (only for the fixed
// families: every limit below the timeout threshold costs a long run).
var allowNoBase = map[string]bool{}

func limitLaws(src string, opts int, runes []rune, quick bool, st func(string)) (detail, incon string, limitsTried int, errorsSeen int) {
	t0 := time.Now()
	base, _, err := callUnder(src, opts, -1, runes)
	if err != nil {
		return "", "pattern-rejected", 0, 0
	}
	if time.Since(t0) > 60*time.Millisecond && !strings.Contains(base.find+base.boolean+base.str, "error:timeout") {
		// every limit repeats these calls: a case this slow would take minutes (and sits close to the
		// timeout, where results flip)
		return "", "unlimited-run-slow", 0, 0
	}
	if base.panicked != "" {
		return "with the limit disabled: " + base.panicked, "", 0, 0
	}
	noBase := false
	for _, v := range []string{base.find, base.boolean, base.str, base.all, base.repl, base.split, base.rfunc, base.chn} {
		if strings.HasPrefix(v, "error:") {
			if v != "error:timeout" || !allowNoBase[src] {
				return "", "unlimited-run-" + v, 0, 0
			}
			// catastrophic without a limit: there is no result to compare with, but under a limit
			// the calls must still end in the limit error (or the timeout) without a panic and
			// without allocating beyond the limit
			noBase = true
		}
	}
	if noBase {
		fastTimeout.Store(src, true)
	}
	if noBase && len(runes) > 130 {
		return "", "unlimited-run-error:timeout", 0, 0
	}
	// what a fresh Regexp answers to the control call (and the size its stack starts with)
	freshCtl, freshOK := "", false
	initialStack := int64(64)
	if fresh, _ := compileLimit(src, opts, -1); fresh != nil {
		none := int64(-1)
		trackMax.Store(fresh, &none)
		if want, e2 := fresh.FindStringMatch("ab"); e2 == nil {
			freshCtl, freshOK = mon.ObsAll(want), true
		}
		if a := maxAlloc(fresh); a > 0 {
			initialStack = a
		}
		trackMax.Delete(fresh)
	}
	judge := func(L int) (ok bool, success bool, detail string) {
		res, re, err := callUnder(src, opts, L, runes)
		if err != nil {
			return false, false, ""
		}
		limitsTried++
		st("limit-evaluated")
		if res.panicked != "" {
			return false, false, fmt.Sprintf("limit %d: %s", L, res.panicked)
		}
		success = true
		for _, pr := range [][3]string{{"FindRunesMatch", res.find, base.find}, {"MatchRunes", res.boolean, base.boolean}, {"FindStringMatch", res.str, base.str}, {"FindAllStringIndex", res.all, base.all}, {"Replace", res.repl, base.repl}, {"Split", res.split, base.split}, {"ReplaceFunc", res.rfunc, base.rfunc}, {"FindStringMatch+FindNextMatch chain", res.chn, base.chn}} {
			switch {
			case pr[1] == pr[2]:
			case noBase && pr[1] == "error:timeout":
				return false, false, ""
			case noBase && !strings.HasPrefix(pr[1], "error:other"):
				// nothing to compare with
				if pr[1] == "error:stacklimit" {
					success = false
					errorsSeen++
				}
			case pr[1] == "error:stacklimit":
				success = false
				errorsSeen++
			case pr[1] == "error:timeout":
				return false, false, "" // inconclusive for this limit
			default:
				return false, false, fmt.Sprintf("limit %d: %s = %s, with the limit disabled it is %s (neither the unlimited result nor ErrBacktrackingStackLimit)", L, pr[0], pr[1], pr[2])
			}
		}
		if L >= 0 && res.alloc > int64(L) {
			return false, false, fmt.Sprintf("limit %d: a backtracking stack of %d slots was allocated", L, res.alloc)
		}
		// the Regexp stays fully usable: a control call equals a fresh Regexp's answer
		ctl, e1 := re.FindStringMatch("ab")
		if e1 == nil && freshOK && mon.ObsAll(ctl) != freshCtl {
			return false, false, fmt.Sprintf("limit %d: after the limited call the control call on \"ab\" gives %s, a fresh Regexp gives %s", L, mon.ObsAll(ctl), freshCtl)
		}
		return true, success, ""
	}
	limits := map[int]bool{}
	for L := 0; L <= 64; L++ {
		if !quick || L%3 == 0 || L < 10 || L > 60 {
			limits[L] = true
		}
	}
	for _, L := range []int{100, 1000, 100000} {
		limits[L] = true
	}
	for k := 64; k <= 16384; k *= 2 {
		limits[k-1], limits[k], limits[k+1] = true, true, true
	}
	// limits a few slots above each size the stack passes through while it doubles (observed in
	// the limit-disabled run): there a doubling is clipped to a handful of extra slots
	for sz := base.alloc; sz >= 16; sz /= 2 {
		for _, d := range []int64{1, 2, 3, 5, 8, 13} {
			limits[int(sz+d)] = true
			if !quick {
				limits[int(2*sz+d)] = true
			}
		}
		if quick && sz < base.alloc/4 {
			break
		}
	}
	// threshold by bisection (allowed by the monotonicity the property claims; cross-checked below)
	lo, hi := 0, 1<<20
	if noBase {
		// no threshold to look for
	} else if _, s, d := judge(hi); d != "" {
		return d, "", limitsTried, errorsSeen
	} else if s {
		for lo < hi {
			mid := (lo + hi) / 2
			_, s, d := judge(mid)
			if d != "" {
				return d, "", limitsTried, errorsSeen
			}
			if s {
				hi = mid
			} else {
				lo = mid + 1
			}
		}
		for d := -2; d <= 2; d++ {
			if lo+d >= 0 {
				limits[lo+d] = true
			}
		}
	}
	if noBase {
		// a run without a limit never ends: only the limits at which a doubling is clipped to a few
		// slots, and a few small ones
		limits = map[int]bool{0: true, 1: true, 8: true, 64: true, 100: true, 1000: true}
		for sz := initialStack; sz <= 2100; sz *= 2 {
			for _, d := range []int64{1, 2, 3, 5, 8, 13} {
				limits[int(sz+d)] = true
			}
		}
	}
	var sorted []int
	for L := range limits {
		sorted = append(sorted, L)
	}
	sort.Ints(sorted)
	firstSuccess := -1
	for _, L := range sorted {
		if noBase && L > 2100 {
			break
		}
		ok, success, d := judge(L)
		if d != "" {
			return d, "", limitsTried, errorsSeen
		}
		if !ok {
			if noBase {
				break // a call ran into the timeout: larger limits only take longer
			}
			continue
		}
		if noBase {
			continue // success and failure are not comparable without a base result
		}
		if success && firstSuccess < 0 {
			firstSuccess = L
		}
		if !success && firstSuccess >= 0 {
			return fmt.Sprintf("the call succeeds with limit %d but fails with ErrBacktrackingStackLimit at the larger limit %d", firstSuccess, L), "", limitsTried, errorsSeen
		}
	}
	return "", "", limitsTried, errorsSeen
}

func replayC13(w core.Witness) string {
	installTrackHook()
	allowNoBase[w.Pattern] = true
	d, _, _, _ := limitLaws(w.Pattern, w.Options, witnessRunes(w), false, func(string) {})
	return d
}

func c13Profile(rng *rand.Rand) *gen.Profile {
	p := fullProfile(rng)
	p.Depth = 2 + rng.Intn(3)
	p.Balancing = false
	p.Comments = false
	p.InlineOpts = false
	p.Quants = [][2]int{{0, -1}, {1, -1}, {0, 1}, {2, 5}, {3, 3}, {0, 8}, {1, 6}, {4, -1}}
	p.RepeatP = 55
	p.AltP = 50
	return p
}

func runC13(r *core.Run) int {
	installTrackHook()
	r.ReplayKnown(replayC13)
	nPat := r.Pick(500, 12000)
	nInputs := r.Pick(3, 5)
	base := rand.New(rand.NewSource(r.Seed*275604541 + 13)).Int63()
	fixedRTL := []string{`a*b*c*d*`, `\w*\d*[ab]*x*y*z*`, `(?:a*b*)*c*d*`, `a*?b*?c*?d*?e`, `x(?<=a*b*c*d*x)`, `(?<=(?:a*b*c*){2}d*)e*f*`, `[ab]*[bc]*[cd]*[de]*\b`}
	fixed := []string{`(?:[ab]*[bc]*[cd]*[de]*[ef]*[fg]*[gh]*[hi]*[ij]*[jk]*[kl]*[lm]*[mn]*[no]*[oa]*x?)*y`, `(?:[ab]*[bc]*[cd]*[da]*x?)*!`, `(?:[ab]*[bc]*[cd]*[da]*x)*`, `(?:[ab]*[bc]*[cd]*[de]*[ef]*[fg]*[gh]*[hi]*[ij]*[jk]*[kl]*[lm]*[mn]*[no]*[oa]*x)*`, `(?:(a)*(b)*(c)*(d)*[ab]*[bc]*[cd]*x)+y?`, `(?:^){40}a`, `(a|b|c|d|e)*z`, `(?:(?:a|ab)(?:c|bcd))*(?=x)y?`, `((a{1,3}){1,3}){1,3}b`, `(?:a*?b*?c*?)*d`, `(?<=(a|b)*)c+`, `(?>a+|b+)*(?!c)\w+?\d`, `(?:(?:(?:(?:x?){3}){3}){3}){3}y`}
	for _, f := range fixed {
		allowNoBase[f] = true
	}
	r.Parallel(nPat, func(i int, l *core.Local) {
		rng := rand.New(rand.NewSource(base + int64(i)*1000003))
		var pc *patCase
		if i < len(fixed) {
			pc = &patCase{src: fixed[i], origin: "fixed"}
		} else if i < len(fixed)+2*len(fixedRTL) {
			// many adjacent single-character loops running right to left (RightToLeft option or look-behind)
			k := i - len(fixed)
			pc = &patCase{src: fixedRTL[k%len(fixedRTL)], origin: "fixed-rtl"}
			if k < len(fixedRTL) {
				pc.opts = int(regexp2.RightToLeft)
			}
		} else {
			opts := 0
			if rng.Intn(3) == 0 {
				opts |= int(regexp2.RightToLeft)
			}
			if rng.Intn(6) == 0 {
				opts |= int(regexp2.IgnoreCase)
			}
			g := gen.NewG(rng, c13Profile(rng))
			p := g.Random(envOf(opts), false)
			pc = &patCase{src: p.Src, opts: opts, pat: p, origin: "random-deep"}
		}
		if !r.ClaimPattern(fmt.Sprintf("%d/%s", pc.opts, pc.src)) {
			return
		}
		var inputs [][]rune
		if pc.pat != nil {
			inputs = inputsFor(pc, rng, 0, nInputs)
			// longer inputs need several stack doublings
			for k := 0; k < 2 && len(inputs) > 0; k++ {
				b := inputs[rng.Intn(len(inputs))]
				var long []rune
				for len(long) < 120+rng.Intn(200) {
					long = append(long, b...)
					if len(b) == 0 {
						long = append(long, 'a')
					}
				}
				inputs = append(inputs, long)
			}
		} else {
			inputs = [][]rune{[]rune(strings.Repeat("abcdx", 4)), []rune(strings.Repeat("abcdefghijklmnox", 8)), []rune(strings.Repeat("abcdx", 40)), []rune("aabbccdd"), []rune("aabbccddxe"), []rune(strings.Repeat("ab", 60) + "cz"), []rune(strings.Repeat("a", 200)), []rune(strings.Repeat("abcd", 50) + "xy1"), []rune("xxxxxxxxxxxxxxxxxxxxxxxxxxxxxxy")}
		}
		if pc.origin == "fixed" && strings.Contains(pc.src, "x?)*") {
			inputs = inputs[:3] // catastrophic without a limit: every base run costs eight timeouts
		}
		l.Count("patterns", 1)
		st := func(k string) { l.Count(k, 1) }
		var nontriv int64
		tPat := time.Now()
		defer func() {
			if d := time.Since(tPat); d > 8*time.Second && os.Getenv("VERIF_C13_SLOW") != "" {
				fmt.Fprintf(os.Stderr, "slow C13 pattern (%v): %q opts=%d origin=%s\n", d, pc.src, pc.opts, pc.origin)
			}
		}()
		for _, in := range inputs {
			if r.Stopped() {
				return
			}
			detail, incon, tried, errs := limitLaws(pc.src, pc.opts, in, r.Quick(), st)
			l.Eval(int64(tried))
			if incon != "" {
				l.Inconclusive(incon)
				if incon == "pattern-rejected" {
					return
				}
				continue
			}
			l.Count("limit_errors_observed", int64(errs))
			if errs > 0 {
				nontriv++
				if nontriv == 1 {
					l.Sample(map[string]any{"pattern": pc.src, "options": pc.opts, "input": string(in), "limits_tried": tried, "limit_errors": errs})
				}
			}
			if detail != "" {
				l.Violate(core.Violation{Kind: "stack-limit", Detail: detail, Witness: witnessOf(pc, in, 0)})
				return
			}
		}
		l.NontrivialN(nontriv)
	})
	r.Extras["bounds"] = map[string]any{"patterns": nPat, "inputs_per_pattern": nInputs + 2, "limits": "0..64 (quick: a subset), 100, 1000, default, 64*2^k-1..+1 up to 16384, bisection threshold L* and L*-2..L*+2, -1"}
	return r.Finish(
		"patterns with deep nesting, counted and lazy loops, look-arounds and many alternations (random ASTs + fixed families) on inputs long enough to need several stack doublings; per (pattern,input,L): FindRunesMatch, MatchRunes, FindStringMatch, FindAllStringIndex, Replace, Split, ReplaceFunc and the FindNextMatch chain under OptionMaxBacktrackingStackSize(L) must return the limit-disabled result or ErrBacktrackingStackLimit, never panic, never allocate more than L slots (verifTrackAlloc events), never fail at a limit above one that succeeded, and leave the Regexp answering a control call like a fresh one; evaluation = one (pattern,input,L); non-trivial = distinct (pattern,input) for which at least one limit produced ErrBacktrackingStackLimit",
		[]string{"timeouts (400 ms) make a case inconclusive", "the bisection uses the monotonicity the property claims and is cross-checked by the sorted sweep"},
		map[string]int64{"evaluations": 20000, "distinct_nontrivial": 300, "limit_errors_observed": 5000})
}
