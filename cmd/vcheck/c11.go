package main

import (
	"fmt"
	"math/rand"
	"os"
	"path/filepath"
	"runtime"
	"sort"
	"strings"
	"sync"
	"sync/atomic"
	"time"

	regexp2 "github.com/dlclark/regexp2/v2"

	"verif/internal/core"
)

// C11: concurrent use of shared Regexps (and of the process-wide pools, caches
// and clock) equals sequential use, and the race detector stays silent.
// The binary for this check is built with -race (see run.sh).

func init() {
	register("C11", runC11, nil)
}

const ringSize = 1 << 16

type pointLog struct {
	seq  atomic.Uint64
	ring [ringSize]atomic.Int32
	mode atomic.Int32 // 0 off, 1 Gosched p=0.2, 2 sleep 50us p=0.05
	hits [16]atomic.Int64
}

var plog pointLog

func pointHook(id int) {
	s := plog.seq.Add(1)
	plog.ring[s%ringSize].Store(int32(id) + 1)
	if id < len(plog.hits) {
		plog.hits[id].Add(1)
	}
	h := (s * 0x9E3779B97F4A7C15) >> 40
	switch plog.mode.Load() {
	case 1:
		if h%5 == 0 {
			runtime.Gosched()
		}
	case 2:
		if h%20 == 0 {
			time.Sleep(50 * time.Microsecond)
		}
	}
}

// fourGrams collects the distinct 4-grams of the recorded point sequence.
func fourGrams(into map[uint32]struct{}) {
	n := plog.seq.Load()
	from := uint64(0)
	if n > ringSize {
		from = n - ringSize + 1
	}
	var w uint32
	cnt := 0
	for s := from + 1; s <= n; s++ {
		v := uint32(plog.ring[s%ringSize].Load()) & 0xff
		w = w<<8 | v
		cnt++
		if cnt >= 4 {
			into[w] = struct{}{}
		}
	}
}

func raceLogBlocks() (blocks int, files []string, heads []string) {
	pat := os.Getenv("VERIF_RACE_LOG")
	if pat == "" {
		return 0, nil, nil
	}
	fs, _ := filepath.Glob(pat + ".*")
	seen := map[string]bool{}
	for _, f := range fs {
		b, err := os.ReadFile(f)
		if err != nil {
			continue
		}
		files = append(files, f)
		for _, blk := range strings.Split(string(b), "WARNING: DATA RACE")[1:] {
			blocks++
			// de-duplicate by the first frames of both stacks with line numbers stripped
			var key []string
			for _, ln := range strings.Split(blk, "\n") {
				ln = strings.TrimSpace(ln)
				if strings.Contains(ln, "regexp2") && strings.Contains(ln, "(") && !strings.HasPrefix(ln, "/") {
					key = append(key, ln[:strings.Index(ln, "(")])
					if len(key) == 4 {
						break
					}
				}
			}
			k := strings.Join(key, " <- ")
			if !seen[k] {
				seen[k] = true
				heads = append(heads, k)
			}
		}
	}
	return
}

func runC11(r *core.Run) int {
	if !raceEnabled {
		fmt.Println("INCONCLUSIVE property=C11 this binary was not built with -race (use run.sh C11)")
		return 3
	}
	regexp2.SetTimeoutCheckPeriod(time.Millisecond)
	regexp2.VerifSetPointHook(pointHook)
	exp := expectedResults()
	exp2 := expectedResults()
	for i := range exp {
		if exp[i] != exp2[i] {
			fmt.Printf("INCONCLUSIVE property=C11 the sequential result of op %q is not stable: %s vs %s\n", hOps[i].name, exp[i], exp2[i])
			return 3
		}
	}
	nRounds := r.Pick(36, 400)
	opsPerG := r.Pick(120, 300)
	rng := rand.New(rand.NewSource(r.Seed*295075147 + 11))
	l := r.Main()
	grams := map[uint32]struct{}{}
	overlaps := map[[2]int]struct{}{}
	var ovMu sync.Mutex
	// the shared Regexps live for the whole run: state leaks across rounds are in scope too
	shared := make([]*regexp2.Regexp, len(hPatterns))
	for i := range shared {
		shared[i] = compileH(i)
	}
	timedQuick := map[string]bool{"no timeout": true}
	var registryWrites atomic.Int64
	for round := 0; round < nRounds && !r.Stopped(); round++ {
		G := []int{2, 4, 8, 32}[round%4]
		procs := []int{1, 2, 4, 16}[(round/4)%4]
		mode := int32((round / 2) % 3)
		runtime.GOMAXPROCS(procs)
		plog.mode.Store(mode)
		l.Count(fmt.Sprintf("rounds_G%d_P%d_mode%d", G, procs, mode), 1)
		current := make([]atomic.Int32, G)
		var wg sync.WaitGroup
		type bad struct {
			op        int
			got       string
			goroutine int
			private   bool
		}
		var bads []bad
		var badMu sync.Mutex
		var done atomic.Int64
		seeds := make([]int64, G)
		for g := range seeds {
			seeds[g] = rng.Int63()
		}
		// Regexps compiled for this round only: their very first uses (runner pool, lazily built
		// state) happen concurrently, released together by the barrier
		fresh := make([]*regexp2.Regexp, len(hPatterns))
		for i := range fresh {
			fresh[i] = compileH(i)
		}
		var barrier sync.WaitGroup
		barrier.Add(1)
		for g := 0; g < G; g++ {
			wg.Add(1)
			go func(g int) {
				defer wg.Done()
				prng := rand.New(rand.NewSource(seeds[g]))
				barrier.Wait()
				private := map[int]*regexp2.Regexp{}
				local := map[[2]int]struct{}{}
				for k := 0; k < opsPerG; k++ {
					oi := prng.Intn(len(hOps))
					for hOps[oi].seqOnly {
						oi = prng.Intn(len(hOps))
					}
					sameFirst := false
					if k == 0 {
						// every goroutine's first call of the round is the SAME operation on the same fresh
						// Regexp (rotating over the alphabet from its end, round by round): whatever that
						// operation builds lazily is built by all of them at once
						if c := (len(hOps) - 1 - round%len(hOps)); !hOps[c].seqOnly {
							oi, sameFirst = c, true
						}
					}
					op := hOps[oi]
					re := shared[op.pat]
					if k < 12 || prng.Intn(3) == 0 {
						re = fresh[op.pat]
					}
					priv := prng.Intn(5) == 0 && !sameFirst
					if priv {
						// a Regexp of this goroutine only: shares just the global pools and the clock
						if private[op.pat] == nil {
							private[op.pat] = compileH(op.pat)
						}
						re = private[op.pat]
					}
					if k%16 == 5 && g%4 == 0 {
						// the code-gen engine registry: writers next to the MustCompile readers (private / fresh compiles)
						regexp2.RegisterEngine(fmt.Sprintf("verif-never-compiled-%d-%d-%d", round, g, k), regexp2.RuntimeEngineData{})
						registryWrites.Add(1)
					}
					if sameFirst {
						// no bookkeeping before this call: the monitor's own atomics would order the
						// goroutines' first calls and hide an unsynchronised first use from the race detector
						got := op.run(re)
						done.Add(1)
						if got != exp[oi] {
							badMu.Lock()
							bads = append(bads, bad{oi, got, g, false})
							badMu.Unlock()
						}
						continue
					}
					current[g].Store(int32(oi) + 1)
					for o := range current {
						if o != g {
							if c := current[o].Load(); c > 0 {
								a, b := oi, int(c-1)
								if a > b {
									a, b = b, a
								}
								local[[2]int{a, b}] = struct{}{}
							}
						}
					}
					got := op.run(re)
					current[g].Store(0)
					done.Add(1)
					if got != exp[oi] {
						if got == "error:timeout" && timedQuick[op.name] {
							continue // a quick timed call may be descheduled past its deadline under load
						}
						badMu.Lock()
						bads = append(bads, bad{oi, got, g, priv})
						badMu.Unlock()
					}
				}
				ovMu.Lock()
				for k := range local {
					overlaps[k] = struct{}{}
				}
				ovMu.Unlock()
			}(g)
		}
		barrier.Done()
		finished := make(chan struct{})
		go func() { wg.Wait(); close(finished) }()
		select {
		case <-finished:
		case <-time.After(150 * time.Second):
			// a call never returned (e.g. a timeout that never fires): nothing more can be learnt from this process
			buf := make([]byte, 1<<22)
			n := runtime.Stack(buf, true)
			keep := filepath.Join(core.VerifDir(), "replays", "C11")
			os.MkdirAll(keep, 0o755)
			dst := filepath.Join(keep, fmt.Sprintf("stuck-%d.log", os.Getpid()))
			os.WriteFile(dst, buf[:n], 0o644)
			var running []string
			for g := range current {
				if c := current[g].Load(); c > 0 {
					running = append(running, hOps[c-1].name)
				}
			}
			l.Violate(core.Violation{Kind: "concurrent-call-never-returned", Detail: fmt.Sprintf("round %d (G=%d GOMAXPROCS=%d perturbation=%d) did not finish within 150 s; calls still running: %v; goroutine dump: %s", round, G, procs, mode, running, dst),
				Witness: core.Witness{Args: map[string]any{"round": round, "G": G, "gomaxprocs": procs, "mode": mode, "seed": r.Seed, "goroutine_dump": dst}}})
			l.Done()
			return r.Finish("aborted: a concurrent call never returned", nil, nil)
		}
		l.Eval(done.Load())
		fourGrams(grams)
		for _, b := range bads {
			l.Violate(core.Violation{Kind: "concurrent-result-differs", Detail: fmt.Sprintf("round %d (G=%d GOMAXPROCS=%d perturbation=%d) goroutine %d: %q on pattern %q (private Regexp: %v) returned %s, sequentially it returns %s", round, G, procs, mode, b.goroutine, hOps[b.op].name, hPatterns[hOps[b.op].pat].src, b.private, b.got, exp[b.op]),
				Observed: b.got, Expected: exp[b.op],
				Witness: core.Witness{Pattern: hPatterns[hOps[b.op].pat].src, Args: map[string]any{"op": hOps[b.op].name, "round": round, "G": G, "gomaxprocs": procs, "mode": mode, "seed": r.Seed}}})
		}
	}
	runtime.GOMAXPROCS(runtime.NumCPU())
	plog.mode.Store(0)
	regexp2.VerifSetPointHook(nil)
	// race detector reports
	blocks, files, heads := raceLogBlocks()
	l.Count("race_report_blocks", int64(blocks))
	l.Count("engine_registry_writes", registryWrites.Load())
	if blocks > 0 {
		sort.Strings(heads)
		keep := filepath.Join(core.VerifDir(), "replays", "C11")
		os.MkdirAll(keep, 0o755)
		dst := filepath.Join(keep, fmt.Sprintf("race-%d.log", os.Getpid()))
		var all []byte
		for _, f := range files {
			b, _ := os.ReadFile(f)
			all = append(all, b...)
		}
		os.WriteFile(dst, all, 0o644)
		for _, h := range heads {
			l.Violate(core.Violation{Kind: "data-race", Detail: fmt.Sprintf("the race detector reported %d block(s); distinct stack heads: %s (full log: %s)", blocks, h, dst), Witness: core.Witness{Pattern: h, Args: map[string]any{"race_log": dst}}})
		}
	}
	for id := 0; id < regexp2.VerifPtCount; id++ {
		l.Count(fmt.Sprintf("point_%02d_hits", id), plog.hits[id].Load())
	}
	for k := range overlaps {
		l.Nontrivial(fmt.Sprint(k))
	}
	l.Sample(map[string]any{"example_round": "G=32 goroutines x " + fmt.Sprint(opsPerG) + " random ops from the C12 operation alphabet on 9 shared Regexps, 1 in 5 ops on a goroutine-private Regexp", "ops": []string{hOps[0].name, hOps[20].name, hOps[23].name, hOps[40].name}})
	l.Done()
	r.Extras["distinct_point_4grams"] = len(grams)
	r.Extras["distinct_overlapping_operation_pairs"] = len(overlaps)
	r.Extras["race_detector"] = map[string]any{"enabled": true, "report_blocks": blocks, "log_files": len(files)}
	r.Extras["bounds"] = map[string]any{"rounds": nRounds, "ops_per_goroutine": opsPerG, "G": []int{2, 4, 8, 32}, "GOMAXPROCS": []int{1, 2, 4, 16}, "perturbation_modes": []string{"off", "Gosched p=0.2", "sleep 50us p=0.05"}}
	return r.Finish(
		"rounds of G in {2,4,8,32} goroutines issuing random operations (bool, find, iterate, abandoned iteration, find-all, replace with more distinct replacements than the cache holds, ReplaceFunc, split, timed matches that fire, stack-limited matches that fail, inputs crossing the pool size classes) on 9 long-lived shared Regexps and on goroutine-private Regexps, with GOMAXPROCS in {1,2,4,16} and yield/sleep perturbation at the verifPoint hooks, under the race detector; every result is compared with the sequential result on a fresh Regexp; evaluation = one concurrent call; non-trivial = distinct pair of operations observed overlapping in time at the client boundary; extras: distinct 4-grams of the hook-point event sequence, hits per hook point, race report blocks",
		[]string{"only interleavings the Go scheduler produces under these perturbations are observed", "the race detector sees only races on executed paths", "a quick timed call that reports a timeout under load is not counted (wall-clock semantics)"},
		map[string]int64{"evaluations": 20000, "distinct_nontrivial": 200, "point_00_hits": 1000, "point_04_hits": 1000, "point_06_hits": 10})
}
