package main

import (
	"fmt"
	"math/rand"
	"strings"

	regexp2 "github.com/dlclark/regexp2/v2"

	"verif/internal/core"
	"verif/internal/mon"
)

// C03, surrogate literals: a pattern can name a surrogate code point (\uD800) and a rune
// slice can hold one, although no Go string can. Shapes that select each literal search
// mode, with surrogates for their literals, against the naive scan on rune inputs.

var c03SurrogateShapes = []string{
	`S1S2`, `S1S2S1S2`, `(?:S1){2}`, `.S1S2`, `\s*S1`, `\s*S1S2`, `ba|S1S1`, `aS1|aS2`, `[S1][S2]x`, `a+S1b`, `S1{3}a`,
	`\w+\s+S1x`, `[S1-S2]+a`, `(S1|S2)\1`, `[^S1]S1S2`, `a?S1S1b`, `(?:ab|S1S2)c`, `S1(?=S2)`, `(?<=S1)S2a`, `[ab]{2}S1S2`,
	`S1.{2}S2b`, `\bS1S2|xyS1`, `(?>S1+)S2`, `S1*?S2S2`,
}

func runC03Surrogates(r *core.Run) {
	n := r.Pick(1200, 20000)
	base := rand.New(rand.NewSource(r.Seed*6700417 + 303)).Int63()
	sur := []rune{0xD800, 0xD801, 0xDBFF, 0xDC00, 0xDFFF}
	r.Parallel(n, func(i int, l *core.Local) {
		rng := rand.New(rand.NewSource(base + int64(i)*1000003))
		s1, s2 := sur[rng.Intn(len(sur))], sur[rng.Intn(len(sur))]
		src := c03SurrogateShapes[i%len(c03SurrogateShapes)]
		src = strings.ReplaceAll(src, "S1", fmt.Sprintf(`\u%04X`, s1))
		src = strings.ReplaceAll(src, "S2", fmt.Sprintf(`\u%04X`, s2))
		opts := 0
		for _, o := range []regexp2.RegexOptions{regexp2.IgnoreCase, regexp2.RightToLeft, regexp2.Multiline, regexp2.Singleline} {
			if rng.Intn(4) == 0 {
				opts |= int(o)
			}
		}
		copts := []int{0, 0, mon.COCodeGen, mon.CONoASCIIBitmap}[rng.Intn(4)]
		if !r.ClaimPattern(fmt.Sprintf("sur/%d/%d/%s", opts, copts, src)) {
			return
		}
		re, err := mon.Compile(src, opts, copts)
		if err != nil {
			l.Count("surrogate_patterns_rejected", 1)
			return
		}
		re.MatchTimeout = shortTimeout
		l.Count("surrogate_patterns", 1)
		alpha := []rune{s1, s2, s1, s2, 'a', 'b', 'x', 'y', ' ', 'c', 0xFFFD}
		for k := 0; k < 10; k++ {
			in := make([]rune, rng.Intn(12))
			for j := range in {
				in[j] = alpha[rng.Intn(len(alpha))]
			}
			for start := 0; start <= len(in); start++ {
				detail, got, want, incon, nontriv := accelCompare(re, in, start)
				l.Eval(1)
				l.Count("surrogate_comparisons", 1)
				if incon != "" {
					l.Inconclusive(incon)
					break
				}
				if nontriv && want != "nil" {
					l.NontrivialN(1)
				}
				if detail != "" {
					w := core.Witness{Pattern: src, Options: opts, COpts: copts, Start: start}
					for _, x := range in {
						w.InputRune = append(w.InputRune, int32(x))
					}
					l.Violate(core.Violation{Kind: "acceleration-changed-result", Detail: detail + " (pattern " + src + ")", Observed: got, Expected: want, Witness: w})
					return
				}
			}
		}
	})
}
