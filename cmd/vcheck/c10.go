package main

import (
	"bufio"
	"encoding/json"
	"errors"
	"flag"
	"fmt"
	"io"
	"math"
	"math/rand"
	"os"
	"os/exec"
	"path/filepath"
	"strings"
	"sync"
	"sync/atomic"
	"time"
	"unicode/utf8"

	regexp2 "github.com/dlclark/regexp2/v2"
	"github.com/dlclark/regexp2/v2/compat"
	"github.com/dlclark/regexp2/v2/syntax"

	"verif/internal/core"
	"verif/internal/gen"
	"verif/internal/mon"
)

// C10: arbitrary patterns and inputs never panic or hang the API.
// The parent enumerates case indices and runs them in child processes
// (vcheck -check C10 -c10worker k/n); a child logs every case before running it.

var (
	c10Worker = flag.String("c10worker", "", "internal: k/n/total (child process of the C10 check)")
	c10One    = flag.String("c10case", "", "internal: run the single case described by this JSON file and time it")
	c14Hist   = flag.String("c14hist", "", "internal: idx/seed/quick (child process of the C14 check)")
)

func init() {
	register("C10", runC10, replayC10)
}

type c10Case struct {
	Index   int    `json:"index"`
	Pattern string `json:"pattern_hex"`
	Opts    int    `json:"options"`
	COpts   int    `json:"copts"`
	Debug   bool   `json:"debug,omitempty"`
	Seed    int64  `json:"seed"`
}

type c10Anomaly struct {
	Kind   string  `json:"kind"`
	Detail string  `json:"detail"`
	Case   c10Case `json:"case"`
	Call   string  `json:"call"`
}

type c10Result struct {
	Cases      int64            `json:"cases"`
	Compiled   int64            `json:"compiled"`
	Calls      int64            `json:"calls"`
	Counters   map[string]int64 `json:"counters"`
	Anomalies  []c10Anomaly     `json:"anomalies"`
	Samples    []any            `json:"samples"`
	SlowestMs  int64            `json:"slowest_case_ms"`
	SlowestPat string           `json:"slowest_case"`
}

const (
	compileBound = 30 * time.Second
	matchBound   = 5 * time.Second
	caseWatchdog = 90 * time.Second
)

func allowedMatchErr(err error) bool {
	return err == nil || mon.IsTimeout(err) || mon.IsStackLimit(err)
}

func isArgErr(err error) bool {
	if err == nil {
		return false
	}
	s := err.Error()
	return strings.HasPrefix(s, "startAt must") || s == "count too small"
}

func isParseErr(err error) bool {
	var pe *syntax.Error
	return errors.As(err, &pe)
}

// genCase derives case i deterministically.
func genCase(i int, seed int64, corpus *gen.Corpus) c10Case {
	rng := rand.New(rand.NewSource(seed + int64(i)*1000003))
	var src string
	switch {
	case rng.Intn(5) == 0:
		// a pattern printed from a shape template or from a random full-syntax AST
		if rng.Intn(2) == 0 {
			t := &gen.T{R: rng, Let: fullProfile(rng).Letters}
			if p := gen.Finish(t.Template(rng.Intn(len(gen.TemplateNames))), gen.Env{}, false, gen.PrintOpts{}); p != nil {
				src = p.Src
			}
		} else {
			src = gen.NewG(rng, fullProfile(rng)).Random(gen.Env{}, false).Src
		}
		if src == "" {
			src = "a(b|c)*d"
		}
	case len(corpus.Patterns) > 0 && rng.Intn(10) != 0:
		src = corpus.Patterns[rng.Intn(len(corpus.Patterns))].Src
	default:
		src = "a(b|c)*d"
	}
	pool := corpus.Strings
	if rng.Intn(4) != 0 {
		src = gen.Mutate(src, pool, rng)
	}
	opts := 0
	if rng.Intn(3) != 0 {
		opts = rng.Intn(1<<11) & 0x777 // all 2^9 defined option bits
	}
	copts := 0
	if rng.Intn(4) == 0 {
		copts = rng.Intn(8)
	}
	return c10Case{Index: i, Pattern: fmt.Sprintf("%x", src), Opts: opts, COpts: copts, Debug: rng.Intn(200) == 0, Seed: seed + int64(i)}
}

// exercise runs every exported operation for one case; report is called for anomalies.
func exercise(c c10Case, res *c10Result, report func(kind, call, detail string)) {
	pattern := unhex(c.Pattern)
	rng := rand.New(rand.NewSource(c.Seed))
	guard := func(call string, allowPanic func(any) bool, f func()) {
		res.Calls++
		if p, st := core.Guard(f); p != nil {
			if allowPanic != nil && allowPanic(p) {
				return
			}
			report("panic", call, fmt.Sprintf("panic: %v\n%s", p, st))
		}
	}
	var extra []regexp2.CompileOption
	if c.Debug {
		extra = append(extra, regexp2.OptionDebug())
	}
	if rng.Intn(6) == 0 {
		extra = append(extra, regexp2.OptionMaxBacktrackingStackSize([]int{0, 1, 5, 64, 1000}[rng.Intn(5)]))
	}
	// the buffer and replacement caches switched off or made tiny: every call then takes the un-pooled paths
	// (a stream of its own: the draws of the cache and large-text decisions do not shift the inputs)
	rng2 := rand.New(rand.NewSource(c.Seed ^ 0x5eed5eed))
	if rng2.Intn(6) == 0 {
		sizes := []int{0, 1, 16, 512, -1}
		extra = append(extra,
			regexp2.OptionMaxCachedRuneBufferLength(sizes[rng2.Intn(5)]),
			regexp2.OptionMaxCachedReplaceBufferLength(sizes[rng2.Intn(5)]),
			regexp2.OptionMaxCachedReplacerDataEntries(sizes[rng2.Intn(5)]),
			regexp2.OptionMaxCachedReplacerDataBytes(sizes[rng2.Intn(5)]))
		res.Counters["cases_with_cache_limits"]++
	}
	mustOpts := []regexp2.CompileOption{regexp2.RegexOptions(c.Opts)}
	if c.COpts&mon.COCodeGen != 0 {
		mustOpts = append(mustOpts, regexp2.OptionIsCodeGen())
	}
	if c.COpts&mon.CONoASCIIBitmap != 0 {
		mustOpts = append(mustOpts, regexp2.OptionDisableCharClassASCIIBitmap())
	}
	if c.COpts&mon.COMaintainOrder != 0 {
		mustOpts = append(mustOpts, regexp2.OptionMaintainCaptureOrder())
	}
	mustOpts = append(mustOpts, extra...)
	var re *regexp2.Regexp
	var cerr error
	t0 := time.Now()
	guard("Compile", nil, func() { re, cerr = mon.Compile(pattern, c.Opts, c.COpts, extra...) })
	if d := time.Since(t0); d > compileBound && len(pattern) <= 512 {
		report("slow-compile", "Compile", fmt.Sprintf("compiling a %d-byte pattern took %v", len(pattern), d))
	}
	// MustCompile panics only with the parse error
	if rng.Intn(8) == 0 {
		guard("MustCompile", func(p any) bool {
			s, ok := p.(string)
			return cerr != nil && ok && strings.HasPrefix(s, "regexp2: Compile(")
		}, func() {
			r2 := regexp2.MustCompile(pattern, mustOpts...)
			if cerr != nil && r2 != nil {
				report("mustcompile", "MustCompile", "Compile rejected the pattern but MustCompile returned a Regexp")
			}
		})
	}
	// Escape / Unescape on the pattern text
	guard("Escape", nil, func() {
		e := regexp2.Escape(pattern)
		if _, err := regexp2.Unescape(e); err != nil && !isParseErr(err) {
			report("error-class", "Unescape(Escape)", err.Error())
		}
	})
	guard("Unescape", nil, func() {
		if _, err := regexp2.Unescape(pattern); err != nil && !isParseErr(err) {
			report("error-class", "Unescape", err.Error())
		}
	})
	if cerr != nil {
		if !isParseErr(cerr) {
			report("error-class", "Compile", "Compile returned an error that is not a parse error: "+cerr.Error())
		}
		res.Counters["compile_parse_errors"]++
		return
	}
	if re == nil {
		return
	}
	res.Compiled++
	re.MatchTimeout = 100 * time.Millisecond
	inputs := gen.HostileInputs(pattern, rng)
	chk := func(call string, err error, argErrOK bool) {
		if allowedMatchErr(err) || (argErrOK && isArgErr(err)) {
			return
		}
		report("error-class", call, "unexpected error: "+err.Error())
	}
	caseStart := time.Now()
	budgetGone := false
	curRunes := 0
	timed := func(call string, f func()) {
		if budgetGone {
			return
		}
		if time.Since(caseStart) > 2*time.Second {
			// a catastrophic pattern: every further call would just run into its timeout again
			budgetGone = true
			res.Counters["cases_cut_short_after_2s"]++
			return
		}
		t := time.Now()
		guard(call, nil, f)
		// a call that performs up to len+2 matches may legitimately run into the timeout once per match
		bound := matchBound
		switch call {
		case "MatchString", "MatchRunes", "FindRunesMatch", "FindStringMatchStartingAt", "FindRunesMatchStartingAt":
		default:
			bound += time.Duration(curRunes+2) * 300 * time.Millisecond
		}
		if raceEnabled {
			// the race build runs the decoding loops tens of times slower; its job is checkptr and
			// the race detector, the timing verdicts belong to the plain build of the same cases
			bound *= 20
		}
		if d := time.Since(t); d > bound {
			report("slow-match", call, fmt.Sprintf("a call with MatchTimeout=100ms on %d runes took %v", curRunes, d))
		}
	}
	for _, in := range inputs {
		in := in
		runes := []rune(in)
		curRunes = len(runes)
		timed("MatchString", func() { _, err := re.MatchString(in); chk("MatchString", err, false) })
		timed("MatchRunes", func() { _, err := re.MatchRunes(runes); chk("MatchRunes", err, false) })
		timed("FindStringMatch+FindNextMatch", func() {
			m, err := re.FindStringMatch(in)
			for k := 0; m != nil && err == nil && k < len(in)+3; k++ {
				_ = m.String()
				for _, g := range m.Groups() {
					_ = g.String()
					for _, cp := range g.Captures {
						cp.ByteRange()
					}
				}
				m, err = re.FindNextMatch(m)
			}
			chk("FindStringMatch", err, false)
		})
		timed("FindRunesMatch", func() { _, err := re.FindRunesMatch(runes); chk("FindRunesMatch", err, false) })
		for _, s := range []int{-5, -1, 0, 1, len(in) / 2, len(in), len(in) + 1, 1 << 30} {
			s := s
			timed("FindStringMatchStartingAt", func() { _, err := re.FindStringMatchStartingAt(in, s); chk("FindStringMatchStartingAt", err, true) })
		}
		for _, s := range []int{-5, 0, len(runes) / 2, len(runes), len(runes) + 1, 1 << 30} {
			s := s
			timed("FindRunesMatchStartingAt", func() {
				m, err := re.FindRunesMatchStartingAt(runes, s)
				chk("FindRunesMatchStartingAt", err, true)
				if m != nil {
					_ = m.String()
				}
			})
		}
		// a rune slice is not necessarily the decoding of a string: values without a UTF-8 encoding
		if len(runes) > 0 && rng.Intn(3) == 0 {
			hostile := append([]rune(nil), runes...)
			for k := 0; k < 1+rng.Intn(2); k++ {
				hostile[rng.Intn(len(hostile))] = []rune{-1, -128, 0xD800, 0xDFFF, 0x110000, 0x7FFFFFFF, -0x80000000}[rng.Intn(7)]
			}
			res.Counters["rune_slices_with_unencodable_values"]++
			timed("MatchRunes", func() { _, err := re.MatchRunes(hostile); chk("MatchRunes(unencodable)", err, false) })
			timed("FindRunesMatch", func() {
				m, err := re.FindRunesMatch(hostile)
				for k := 0; m != nil && err == nil && k < len(hostile)+3; k++ {
					_ = m.String()
					for _, g := range m.Groups() {
						for _, cp := range g.Captures {
							cp.ByteRange()
						}
					}
					m, err = re.FindNextMatch(m)
				}
				chk("FindRunesMatch(unencodable)", err, false)
			})
			timed("FindAllRunesIndex", func() { _, err := re.FindAllRunesIndex(hostile, -1); chk("FindAllRunesIndex(unencodable)", err, false) })
		}
		for _, n := range []int{-1, 0, 1, 3, -7, math.MaxInt, 1 << 40} {
			n := n
			timed("FindAllStringIndex", func() { _, err := re.FindAllStringIndex(in, n); chk("FindAllStringIndex", err, false) })
			timed("FindAllRunesIndex", func() { _, err := re.FindAllRunesIndex(runes, n); chk("FindAllRunesIndex", err, false) })
		}
		for k := 0; k < 3; k++ {
			repl := gen.HostileReplacements[rng.Intn(len(gen.HostileReplacements))]
			start := []int{-1, 0, len(in), len(in) + 3, -9, 1}[rng.Intn(6)]
			count := []int{-1, 0, 1, 5, -2}[rng.Intn(5)]
			timed("Replace", func() {
				_, err := re.Replace(in, repl, start, count)
				if err != nil && !allowedMatchErr(err) && !isArgErr(err) && !isParseErr(err) {
					report("error-class", "Replace", fmt.Sprintf("Replace(%q,%q,%d,%d): %v", in, repl, start, count, err))
				}
			})
			timed("ReplaceFunc", func() {
				_, err := re.ReplaceFunc(in, func(m regexp2.Match) string { return m.String() + repl }, start, count)
				chk("ReplaceFunc", err, true)
			})
		}
		for _, n := range []int{-1, 0, 1, 2, -3} {
			n := n
			timed("Split", func() { _, err := re.Split(in, n); chk("Split", err, true) })
		}
	}
	// one text beyond the largest pooled buffer class (256 Ki runes): the entry points that decode or
	// build into pooled buffers
	if rng2.Intn(40) == 0 && len(inputs) > 0 && !budgetGone {
		unit := inputs[rng2.Intn(len(inputs))]
		if unit == "" {
			unit = "ab \n"
		}
		big := strings.Repeat(unit, 300000/len(unit)+1)
		bigRunes := []rune(big)
		curRunes = len(bigRunes)
		res.Counters["cases_with_300KB_input"]++
		timed("MatchString", func() { _, err := re.MatchString(big); chk("MatchString(300KB)", err, false) })
		timed("MatchRunes", func() { _, err := re.MatchRunes(bigRunes); chk("MatchRunes(300KB)", err, false) })
		timed("FindAllStringIndex", func() { _, err := re.FindAllStringIndex(big, 3); chk("FindAllStringIndex(300KB)", err, false) })
		timed("FindAllRunesIndex", func() { _, err := re.FindAllRunesIndex(bigRunes, 3); chk("FindAllRunesIndex(300KB)", err, false) })
		timed("FindStringMatchStartingAt", func() {
			m, err := re.FindStringMatchStartingAt(big, len(big)/2)
			chk("FindStringMatchStartingAt(300KB)", err, true)
			if m != nil {
				_ = m.String()
				m.Groups()
			}
		})
		timed("Replace", func() {
			_, err := re.Replace(big, "[$0]", -1, 2)
			if err != nil && !allowedMatchErr(err) && !isArgErr(err) && !isParseErr(err) {
				report("error-class", "Replace(300KB)", err.Error())
			}
		})
		timed("Split", func() { _, err := re.Split(big, 3); chk("Split(300KB)", err, true) })
		timed("compat", func() {
			guard("compat methods(300KB)", func(p any) bool {
				err, ok := p.(error)
				return ok && (mon.IsTimeout(err) || mon.IsStackLimit(err))
			}, func() {
				cw := compat.Wrap(re)
				cw.MatchString(big)
				cw.FindStringIndex(big)
				cw.FindAllStringIndex(big, 2)
			})
		})
	}
	// lookups with hostile arguments, marshalling
	guard("group lookups", nil, func() {
		for _, n := range append(re.GetGroupNumbers(), -1, 1<<31-1, -1<<31) {
			re.GroupNameFromNumber(n)
		}
		for _, s := range append(re.GetGroupNames(), "", "\x00", "99999999999999999999", "-1", pattern) {
			re.GroupNumberFromName(s)
		}
		_ = re.String()
		b, _ := re.MarshalText()
		var r2 regexp2.Regexp
		if err := r2.UnmarshalText(b); err != nil && !isParseErr(err) {
			report("error-class", "UnmarshalText", err.Error())
		}
	})
	// compat adapter: panics only with a timeout / stack-limit error
	cre := compat.Wrap(re)
	okPanic := func(p any) bool {
		err, ok := p.(error)
		return ok && (mon.IsTimeout(err) || mon.IsStackLimit(err))
	}
	for _, in := range inputs[:6] {
		in := in
		b := []byte(in)
		curRunes = len([]rune(in)) * 20
		timed("compat", func() {
			guard("compat methods", okPanic, func() {
				cre.Match(b)
				cre.MatchReader(strings.NewReader(in))
				cre.Find(b)
				cre.FindIndex(b)
				cre.FindReaderIndex(strings.NewReader(in))
				cre.FindReaderSubmatchIndex(strings.NewReader(in))
				cre.FindString(in)
				cre.FindStringSubmatch(in)
				cre.FindSubmatch(b)
				cre.FindSubmatchIndex(b)
				// a reader that fails: the regexp package treats any read error as the end of the text
				cre.MatchReader(&failingReader{s: in, after: len(in) / 2})
				cre.FindReaderIndex(&failingReader{s: in, after: 1})
				cre.FindReaderSubmatchIndex(&failingReader{s: in, after: 0})
				for _, n := range []int{-1, 0, 2, math.MaxInt} {
					cre.FindAll(b, n)
					cre.FindAllIndex(b, n)
					cre.FindAllString(in, n)
					cre.FindAllStringSubmatch(in, n)
					cre.FindAllStringSubmatchIndex(in, n)
					cre.FindAllSubmatch(b, n)
					cre.FindAllSubmatchIndex(b, n)
				}
			})
		})
	}
}

// failingReader yields the runes of s and then an error that is not io.EOF.
type failingReader struct {
	s     string
	after int // bytes served before the error
	pos   int
}

func (f *failingReader) ReadRune() (rune, int, error) {
	if f.pos >= f.after || f.pos >= len(f.s) {
		return 0, 0, errors.New("read failed")
	}
	r, n := utf8.DecodeRuneInString(f.s[f.pos:])
	f.pos += n
	return r, n, nil
}

// c10WorkerMain is the child process.
func c10WorkerMain(spec, tier string) int {
	var k, n, total, from int
	var seed int64
	fmt.Sscanf(spec, "%d/%d/%d/%d/%d", &k, &n, &total, &seed, &from)
	if from > k {
		k = from
	}
	regexp2.SetTimeoutCheckPeriod(time.Millisecond)
	devnull, _ := os.OpenFile(os.DevNull, os.O_WRONLY, 0)
	realStdout := os.Stdout
	os.Stdout = devnull // OptionDebug prints to stdout
	corpus := gen.LoadCorpus(core.RepoDir())
	progress, _ := os.Create(os.Getenv("VERIF_C10_PROGRESS"))
	res := &c10Result{Counters: map[string]int64{}}
	var current atomic.Value
	var started atomic.Int64
	go func() { // watchdog
		for {
			time.Sleep(time.Second)
			if s := started.Load(); s != 0 && time.Since(time.Unix(0, s)) > caseWatchdog {
				c, _ := current.Load().(c10Case)
				b, _ := json.Marshal(c)
				fmt.Fprintf(progress, "HANG %s\n", b)
				progress.Sync()
				os.Exit(97)
			}
		}
	}()
	for i := k; i < total; i += n {
		c := genCase(i, seed, corpus)
		b, _ := json.Marshal(c)
		fmt.Fprintf(progress, "%s\n", b)
		current.Store(c)
		started.Store(time.Now().UnixNano())
		res.Cases++
		nAnom := 0
		exercise(c, res, func(kind, call, detail string) {
			nAnom++
			if len(res.Anomalies) < 40 && nAnom <= 2 {
				res.Anomalies = append(res.Anomalies, c10Anomaly{Kind: kind, Detail: detail, Case: c, Call: call})
			}
			res.Counters["anomaly_"+kind]++
		})
		el := time.Since(time.Unix(0, started.Load()))
		if el.Milliseconds() > res.SlowestMs {
			res.SlowestMs = el.Milliseconds()
			res.SlowestPat = gen.Describe(unhex(c.Pattern), c.Opts)
		}
		started.Store(0)
		if len(res.Samples) < 2 && res.Compiled > 0 && i%7 == 0 {
			res.Samples = append(res.Samples, map[string]any{"pattern": unhex(c.Pattern), "options": c.Opts, "copts": c.COpts})
		}
	}
	out, _ := json.Marshal(res)
	fmt.Fprintln(realStdout, string(out))
	return 0
}

// c10CaseMain re-runs one case alone and reports its duration (hang triage).
func c10CaseMain(file string) int {
	regexp2.SetTimeoutCheckPeriod(time.Millisecond)
	b, err := os.ReadFile(file)
	if err != nil {
		return 2
	}
	var c c10Case
	if json.Unmarshal(b, &c) != nil {
		var v core.Violation
		if json.Unmarshal(b, &v) == nil {
			raw, _ := json.Marshal(v.Witness.Args["case"])
			json.Unmarshal(raw, &c)
		}
	}
	devnull, _ := os.OpenFile(os.DevNull, os.O_WRONLY, 0)
	realStdout := os.Stdout
	os.Stdout = devnull
	res := &c10Result{Counters: map[string]int64{}}
	var anomalies []string
	t := time.Now()
	exercise(c, res, func(kind, call, detail string) { anomalies = append(anomalies, kind+" in "+call+": "+detail) })
	fmt.Fprintf(realStdout, "case took %v; anomalies: %d\n", time.Since(t), len(anomalies))
	for _, a := range anomalies {
		fmt.Fprintln(realStdout, a)
	}
	if len(anomalies) > 0 {
		return 1
	}
	return 0
}

// c10Regressions are the calls that used to panic (or kill the process), kept as
// deterministic probes next to the generated workload. Each returns "" when the
// call now behaves.
var c10Regressions = map[string]func() string{
	"negative-rune-in-bm-scan": func() string {
		re := regexp2.MustCompile(`__\A`, regexp2.None)
		_, err := re.FindRunesMatch([]rune{-1, '_', '_', '_', '_', '!', '_', '\r'})
		return errText(err)
	},
	"find-all-huge-n": func() string {
		re := regexp2.MustCompile(`a`, regexp2.None)
		if r, err := re.FindAllStringIndex("banana", math.MaxInt); err != nil || len(r) != 3 {
			return fmt.Sprintf("FindAllStringIndex(\"banana\", MaxInt) = %v, %v", r, err)
		}
		if r, err := re.FindAllRunesIndex([]rune("banana"), 1<<40); err != nil || len(r) != 3 {
			return fmt.Sprintf("FindAllRunesIndex(\"banana\", 1<<40) = %v, %v", r, err)
		}
		return ""
	},
	"compat-reader-error": func() string {
		c := compat.Wrap(regexp2.MustCompile(`a+`, regexp2.RE2))
		if !c.MatchReader(&failingReader{s: "aab", after: 2}) {
			return "MatchReader on a reader that fails after \"aa\" = false, the regexp package says true"
		}
		if loc := c.FindReaderIndex(&failingReader{s: "baab", after: 3}); len(loc) != 2 || loc[0] != 1 || loc[1] != 3 {
			return fmt.Sprintf("FindReaderIndex on a reader that fails after \"baa\" = %v, the regexp package says [1 3]", loc)
		}
		return ""
	},
	"runes-start-beyond-end": func() string {
		for _, p := range []string{`\b`, `\B`, `(?m)^`, `a*`, `$`} {
			for _, o := range []regexp2.RegexOptions{regexp2.None, regexp2.RightToLeft} {
				re := regexp2.MustCompile(p, o)
				m, err := re.FindRunesMatchStartingAt([]rune("ab"), 3)
				if err == nil {
					if m != nil {
						_ = m.String()
					}
					return fmt.Sprintf("FindRunesMatchStartingAt(%q, \"ab\", 3) returned no argument error", p)
				}
			}
		}
		return ""
	},
	"rtl-balancing-negative-length": func() string {
		re := regexp2.MustCompile(`(?<A>(?<A-A>x){2}n)(?<A>A)`, regexp2.RightToLeft)
		m, err := re.FindStringMatch("xxnA")
		if err != nil || m == nil {
			return fmt.Sprintf("no match: %v", err)
		}
		if got := mon.ObsAll(m); got != "0:(0,4);A:(1,1)(0,3);" {
			return "captures " + got + ", want 0:(0,4);A:(1,1)(0,3);"
		}
		return ""
	},
	"enumerated-property-without-value": func() string {
		_, err := regexp2.Compile(`\p{wb}`, regexp2.None)
		if err != nil && !isParseErr(err) {
			return err.Error()
		}
		return ""
	},
	"leading-zero-group-maintain-order": func() string {
		for _, p := range []string{`(?<01>b)(c)`, `(a)(?<02>b)(c)`, `(?'007'b)|(c)`} {
			re, err := regexp2.Compile(p, regexp2.None, regexp2.OptionMaintainCaptureOrder())
			if err != nil {
				if !isParseErr(err) {
					return p + ": " + err.Error()
				}
				continue
			}
			m, err := re.FindStringMatch("abc")
			if err != nil {
				return p + ": " + err.Error()
			}
			if m != nil {
				m.Groups()
			}
		}
		return ""
	},
	"rtl-split": func() string {
		re := regexp2.MustCompile(`,`, regexp2.RightToLeft)
		r, err := re.Split("a,b,c", -1)
		if err != nil || len(r) != 3 {
			return fmt.Sprintf("Split = %q, %v", r, err)
		}
		return ""
	},
}

func errText(err error) string {
	if err == nil || allowedMatchErr(err) {
		return ""
	}
	return err.Error()
}

func runRegression(name string) string {
	f := c10Regressions[name]
	if f == nil {
		return ""
	}
	var out string
	if p, st := core.Guard(func() { out = f() }); p != nil {
		return fmt.Sprintf("panic: %v\n%s", p, st)
	}
	return out
}

func replayC10(w core.Witness) string {
	if name, ok := w.Args["regression"].(string); ok {
		return runRegression(name)
	}
	raw, _ := json.Marshal(w.Args["case"])
	var c c10Case
	if json.Unmarshal(raw, &c) != nil || c.Pattern == "" && w.Pattern == "" {
		return "witness has no case"
	}
	if c.Pattern == "" {
		c.Pattern = fmt.Sprintf("%x", w.Pattern)
		c.Opts = w.Options
	}
	regexp2.SetTimeoutCheckPeriod(time.Millisecond)
	res := &c10Result{Counters: map[string]int64{}}
	var first string
	old := os.Stdout
	devnull, _ := os.OpenFile(os.DevNull, os.O_WRONLY, 0)
	os.Stdout = devnull
	exercise(c, res, func(kind, call, detail string) {
		if first == "" {
			first = kind + " in " + call + ": " + detail
		}
	})
	os.Stdout = old
	return first
}

func runC10(r *core.Run) int {
	r.ReplayKnown(replayC10)
	{
		l := r.Main()
		for name := range c10Regressions {
			l.Count("regression_probes", 1)
			if d := runRegression(name); d != "" {
				l.Violate(core.Violation{Kind: "regression-probe-" + name, Detail: d, Witness: core.Witness{Args: map[string]any{"regression": name}}})
			}
		}
		l.Done()
	}
	total := r.Pick(14000, 200000)
	nWorkers := r.Workers
	self, _ := os.Executable()
	seed := r.Seed*334214459 + 10
	l := r.Main()
	logDir := filepath.Join(core.VerifDir(), "logs")
	os.MkdirAll(logDir, 0o755)
	type job struct {
		bin  string
		k, n int
		tot  int
		race bool
	}
	var jobs []job
	for k := 0; k < nWorkers; k++ {
		jobs = append(jobs, job{self, k, nWorkers, total, false})
	}
	// a share of the same case list under a -race build (checkptr polices the unsafe sites)
	if rb := os.Getenv("VERIF_RACE_BIN"); rb != "" {
		for k := 0; k < 4; k++ {
			jobs = append(jobs, job{rb, k, 4, total / 25, true})
		}
	}
	var mu sync.Mutex
	merged := &c10Result{Counters: map[string]int64{}}
	var wg sync.WaitGroup
	sem := make(chan struct{}, nWorkers)
	for ji, j := range jobs {
		wg.Add(1)
		go func(ji int, j job) {
			defer wg.Done()
			sem <- struct{}{}
			defer func() { <-sem }()
			prog := filepath.Join(logDir, fmt.Sprintf("c10-progress-%d-%d", os.Getpid(), ji))
			errf := prog + ".stderr"
			from := 0
			for restarts := 0; restarts < 200; restarts++ {
				cmd := exec.Command(j.bin, "-check", "C10", "-tier", r.Tier, "-c10worker", fmt.Sprintf("%d/%d/%d/%d/%d", j.k, j.n, j.tot, seed, from))
				cmd.Env = append(os.Environ(), "VERIF_C10_PROGRESS="+prog, "GORACE=halt_on_error=1")
				ef, _ := os.Create(errf)
				cmd.Stderr = ef
				out, err := cmd.Output()
				ef.Close()
				var res c10Result
				ok := err == nil && json.Unmarshal(lastLine(out), &res) == nil
				mu.Lock()
				if ok {
					merged.Cases += res.Cases
					merged.Compiled += res.Compiled
					merged.Calls += res.Calls
					for k, v := range res.Counters {
						merged.Counters[k] += v
					}
					if j.race {
						merged.Counters["cases_under_race_build"] += res.Cases
					}
					merged.Anomalies = append(merged.Anomalies, res.Anomalies...)
					merged.Samples = append(merged.Samples, res.Samples...)
					if res.SlowestMs > merged.SlowestMs {
						merged.SlowestMs, merged.SlowestPat = res.SlowestMs, res.SlowestPat
					}
					mu.Unlock()
					os.Remove(prog)
					os.Remove(errf)
					return
				}
				// the child died: attribute it to the last case it logged and restart after that case
				last := lastProgressLine(prog)
				hang := strings.HasPrefix(last, "HANG ")
				last = strings.TrimPrefix(last, "HANG ")
				var c c10Case
				json.Unmarshal([]byte(last), &c)
				kind := "process-fatal"
				detail := fmt.Sprintf("worker process died (%v) while running the case; stderr head:\n%s", err, tailFile(errf, 6000))
				if hang {
					kind = "hang-suspect"
					detail = fmt.Sprintf("a case ran for more than %v in a worker", caseWatchdog)
				}
				merged.Anomalies = append(merged.Anomalies, c10Anomaly{Kind: kind, Detail: detail, Case: c, Call: "?"})
				merged.Counters["worker_restarts"]++
				merged.Cases += int64((c.Index-from)/j.n + 1)
				mu.Unlock()
				if last == "" {
					return
				}
				from = c.Index + j.n
			}
		}(ji, j)
	}
	wg.Wait()
	l.Eval(merged.Cases)
	l.NontrivialN(merged.Compiled)
	for k, v := range merged.Counters {
		l.Count(k, v)
	}
	l.Count("api_calls", merged.Calls)
	l.Count("patterns_compiled", merged.Compiled)
	for _, s := range merged.Samples {
		l.Sample(s)
	}
	var suspects []string
	for _, a := range merged.Anomalies {
		switch a.Kind {
		case "slow-compile", "slow-match", "hang-suspect":
			// wall-clock suspects: re-run the case alone up to three times
			cf := filepath.Join(logDir, fmt.Sprintf("c10-case-%d.json", a.Case.Index))
			b, _ := json.Marshal(a.Case)
			os.WriteFile(cf, b, 0o644)
			slow := 0
			var last string
			for try := 0; try < 3; try++ {
				t := time.Now()
				cmd := exec.Command(self, "-check", "C10", "-c10case", cf)
				done := make(chan []byte, 1)
				go func() { o, _ := cmd.CombinedOutput(); done <- o }()
				select {
				case o := <-done:
					last = string(o)
					if strings.Contains(last, "slow-") || time.Since(t) > caseWatchdog {
						slow++
					}
				case <-time.After(3 * caseWatchdog):
					cmd.Process.Kill()
					slow++
					last = "still running after " + (3 * caseWatchdog).String()
				}
			}
			os.Remove(cf)
			if slow == 3 {
				l.Violate(core.Violation{Kind: "bounded-progress", Detail: a.Detail + "; reproduced 3/3 alone: " + oneLineN(last, 300), Witness: core.Witness{Pattern: unhex(a.Case.Pattern), Options: a.Case.Opts, COpts: a.Case.COpts, Args: map[string]any{"case": a.Case}}})
			} else {
				l.Inconclusive("slow-case-not-reproduced")
				suspects = append(suspects, fmt.Sprintf("%s in %s: %s (slow alone in %d of 3 re-runs; pattern %q options %#x)", a.Kind, a.Call, oneLineN(a.Detail, 200), slow, oneLineN(unhex(a.Case.Pattern), 120), a.Case.Opts))
			}
		default:
			l.Violate(core.Violation{Kind: a.Kind, Detail: a.Call + ": " + a.Detail, Witness: core.Witness{Pattern: unhex(a.Case.Pattern), Options: a.Case.Opts, COpts: a.Case.COpts, Args: map[string]any{"case": a.Case}}})
		}
	}
	l.Done()
	if len(suspects) > 0 {
		r.Extras["timing_suspects_not_reproduced"] = suspects
	}
	r.Extras["slowest_case"] = map[string]any{"ms": merged.SlowestMs, "case": merged.SlowestPat}
	// thorough: coverage-guided fuzzing
	if !r.Quick() {
		runFuzzTargets(r)
	}
	r.Extras["bounds"] = map[string]any{"cases": total, "pattern_bytes": "<= 12000", "compile_bound": compileBound.String(), "timed_match_bound": matchBound.String() + " with MatchTimeout=100ms and a 1 ms clock", "watchdog": caseWatchdog.String()}
	return r.Finish(
		"deterministic structure-aware mutation (token splice, unbalanced brackets/braces/parens, option letters, huge and overflowing counts, \\p names, number-like group names, nesting up to 2000, non-UTF-8 bytes, NUL) of the harvested corpus (parser fuzz corpus, test patterns, PCRE/RE2/Rust corpora) under random subsets of all option bits and compile options (code generation mode, capture order, ASCII bitmap off, backtracking stack limits, and the rune-buffer / replace-buffer / replacer caches switched off or made tiny); for each pattern that compiles every exported operation (Match*, Find*, StartingAt with in- and out-of-range offsets, FindAll, FindNextMatch to exhaustion, Replace/ReplaceFunc/Split with hostile replacement strings and counts, Escape/Unescape, group lookups with hostile arguments, Marshal/UnmarshalText, every compat method) on hostile inputs, one case in forty also on a text of 300 KB (beyond the largest pooled buffer class), in child processes that log each case before running it; a share of the cases also under a -race build (checkptr); thorough adds coverage-guided go test -fuzz targets; evaluation = one pattern case; non-trivial = case whose pattern compiled and was exercised",
		[]string{"panics are recovered per call in the child; process-fatal errors are attributed to the last logged case", "timing bounds are suspects re-run alone three times", "stack exhaustion from megabyte-deep nesting is out of reach (patterns <= 12 KB)"},
		map[string]int64{"evaluations": 5000, "distinct_nontrivial": 1000, "api_calls": 100000})
}

func oneLineN(s string, n int) string {
	s = strings.ReplaceAll(s, "\n", " | ")
	if len(s) > n {
		s = s[:n]
	}
	return s
}

func lastLine(b []byte) []byte {
	s := strings.TrimRight(string(b), "\n")
	if i := strings.LastIndex(s, "\n"); i >= 0 {
		return []byte(s[i+1:])
	}
	return []byte(s)
}

func lastProgressLine(path string) string {
	f, err := os.Open(path)
	if err != nil {
		return ""
	}
	defer f.Close()
	var last string
	rd := bufio.NewReaderSize(f, 1<<20)
	for {
		line, err := rd.ReadString('\n')
		if strings.TrimSpace(line) != "" {
			last = strings.TrimSpace(line)
		}
		if err == io.EOF || err != nil {
			break
		}
	}
	return last
}

func tailFile(path string, n int) string {
	b, err := os.ReadFile(path)
	if err != nil {
		return ""
	}
	if len(b) > n {
		b = b[:n]
	}
	return string(b)
}

// runFuzzTargets runs the coverage-guided targets of /verif/fuzz with budgets
// by execution count; a crasher is a violation whose replay is the corpus file.
func runFuzzTargets(r *core.Run) {
	budget := "400000x"
	if v := os.Getenv("VERIF_FUZZ_BUDGET"); v != "" {
		budget = v
	}
	l := r.Main()
	defer l.Done()
	results := map[string]string{}
	for _, target := range []string{"FuzzCompileMatch", "FuzzReplaceSplit", "FuzzEscape", "FuzzCompat"} {
		args := []string{"test"}
		if mf := os.Getenv("VERIF_MODFLAG"); mf != "" {
			args = append(args, mf)
		}
		args = append(args, "-tags", "verif", "-run=^$", "-fuzz=^"+target+"$", "-fuzztime="+budget, "./fuzz")
		cmd := exec.Command("go", args...)
		cmd.Dir = core.VerifDir()
		out, err := cmd.CombinedOutput()
		s := string(out)
		execs := ""
		for _, ln := range strings.Split(s, "\n") {
			if strings.Contains(ln, "execs:") {
				execs = strings.TrimSpace(ln)
			}
		}
		results[target] = execs
		l.Count("fuzz_targets_run", 1)
		if err != nil {
			path := ""
			for _, ln := range strings.Split(s, "\n") {
				if i := strings.Index(ln, "testdata/fuzz/"); i >= 0 {
					path = filepath.Join(core.VerifDir(), "fuzz", strings.TrimSpace(ln[i:]))
				}
			}
			l.Violate(core.Violation{Kind: "fuzz-crasher", Detail: target + ": " + oneLineN(s, 1500), Witness: core.Witness{Pattern: target, Args: map[string]any{"corpus_file": path}}})
		}
	}
	r.Extras["fuzz"] = map[string]any{"budget_per_target": budget, "last_progress_line": results}
}
