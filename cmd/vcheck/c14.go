package main

import (
	"bytes"
	"encoding/json"
	"fmt"
	"math"
	"math/rand"
	"os"
	"os/exec"
	"runtime"
	"strings"
	"sync"
	"sync/atomic"
	"syscall"
	"time"

	regexp2 "github.com/dlclark/regexp2/v2"

	"verif/internal/core"
	"verif/internal/mon"
)

// C14: timeouts fire, only when due, and the clock goroutine cleans up.
// Verdicts here are inherently wall-clock: a step that misses its window is
// first a suspect; the history is re-executed alone up to three times next to a
// calibration goroutine that measures scheduler overshoot, and it is a violation
// only if it reproduces every time with low overshoot.

func init() {
	register("C14", runC14, nil)
}

type tStep struct {
	kind string        // T catastrophic timed, Q quick timed, I idle, S stop clock, P parallel timed, M parallel timed with one long deadline, N parallel quick timed, R quick timed overtaken between its two clock reads, F timed match whose time goes into forward progress, C change the clock period, G expect clock goroutine gone
	d    time.Duration // timeout or idle
	k    int           // P: number of concurrent matches
	e    int           // T, Q: entry point (index into entryNames)
}

func (s tStep) String() string {
	switch s.kind {
	case "P", "M", "N", "R":
		return fmt.Sprintf("%s(%d)", s.kind, s.k)
	case "S", "G":
		return s.kind
	}
	if s.kind == "Q" && s.d > 1000*time.Hour {
		return "Q(max)"
	}
	if s.e != 0 && (s.kind == "T" || s.kind == "Q") {
		return fmt.Sprintf("%s(%v,%s)", s.kind, s.d, entryNames[s.e%len(entryNames)])
	}
	return fmt.Sprintf("%s(%v)", s.kind, s.d)
}

var (
	catPattern   = `(x+x+)+y`
	catInput     = []rune(strings.Repeat("x", 45) + "!")
	quickInput   = []rune("xxxy")
	clockPeriod  = time.Millisecond
	lateSlack    = 40 * time.Millisecond
	earlySlack   = 5 * time.Millisecond
	overshootMax = 250 * time.Millisecond
	// F steps: a match that never backtracks - 6000 iterations of a look-ahead running over 300,000
	// runes (about a second of forward progress on this machine)
	fwdPattern = `^(?:(?=.*$)a){6000}`
	fwdInput   = []rune(strings.Repeat("a", 6000) + strings.Repeat("b", 300000))
	// the same work written out: 4,000 look-aheads in a row, no loop and no backtracking
	fwdFlatPattern = "^" + strings.Repeat(`(?=.*$)a`, 4000)
	fwdFlatInput   = []rune(strings.Repeat("a", 4000) + strings.Repeat("b", 300000))
	// M steps: deadlines more than the clock's 1 s slop apart
	mixedLong  = 1500 * time.Millisecond
	mixedShort = 10 * time.Millisecond
)

func clockGoroutineAlive() bool {
	buf := make([]byte, 1<<20)
	n := runtime.Stack(buf, true)
	return strings.Contains(string(buf[:n]), "regexp2/v2.runClock")
}

// calibrator measures how late a 1 ms sleep wakes up (scheduler overshoot).
type calibrator struct {
	stop atomic.Bool
	max  atomic.Int64
	wg   sync.WaitGroup
}

func startCalibrator() *calibrator {
	c := &calibrator{}
	// a CPU-bound probe: the longest gap between two clock reads of a spinning goroutine shows
	// how long the OS keeps a busy goroutine (like a catastrophic match) off the CPU
	c.wg.Add(1)
	go func() {
		defer c.wg.Done()
		last := time.Now()
		for !c.stop.Load() {
			now := time.Now()
			if gap := now.Sub(last); int64(gap) > c.max.Load() {
				c.max.Store(int64(gap))
			}
			last = now
		}
	}()
	c.wg.Add(1)
	go func() {
		defer c.wg.Done()
		for !c.stop.Load() {
			t := time.Now()
			time.Sleep(time.Millisecond)
			if over := time.Since(t) - time.Millisecond; int64(over) > c.max.Load() {
				c.max.Store(int64(over))
			}
		}
	}()
	return c
}

func (c *calibrator) finish() time.Duration {
	c.stop.Store(true)
	c.wg.Wait()
	return time.Duration(c.max.Load())
}

type stepObs struct {
	step    tStep
	latency time.Duration
	err     string
	suspect string
	// for timing suspects: by how much the window was missed; such a suspect is dropped when the
	// scheduler overshoot measured during the same run is at least that large
	missedBy time.Duration
	// CPU time the process got during the step and the step's wall time: a single spinning match
	// that got much less CPU than wall time was kept off the processor by other load
	cpu, wall time.Duration
}

func processCPU() time.Duration {
	var ru syscall.Rusage
	if syscall.Getrusage(syscall.RUSAGE_SELF, &ru) != nil {
		return 0
	}
	return time.Duration(ru.Utime.Nano() + ru.Stime.Nano())
}

func timedMatch(d time.Duration, in []rune) (time.Duration, error) {
	return timedMatchE(d, in, 0)
}

// entry points a timed match is made through (T and Q steps rotate over them)
var entryNames = []string{"FindRunesMatch", "FindStringMatch", "MatchString", "MatchRunes", "Replace", "ReplaceFunc", "Split", "FindAllStringIndex", "FindNextMatch", "FindStringMatchStartingAt"}

func timedMatchE(d time.Duration, in []rune, entry int) (time.Duration, error) {
	re := regexp2.MustCompile(catPattern, regexp2.None)
	re.MatchTimeout = d
	s := string(in)
	var err error
	t := time.Now()
	switch entry % len(entryNames) {
	case 0:
		_, err = re.FindRunesMatch(in)
	case 1:
		_, err = re.FindStringMatch(s)
	case 2:
		_, err = re.MatchString(s)
	case 3:
		_, err = re.MatchRunes(in)
	case 4:
		_, err = re.Replace(s, "-", -1, -1)
	case 5:
		_, err = re.ReplaceFunc(s, func(m regexp2.Match) string { return "-" }, -1, -1)
	case 6:
		_, err = re.Split(s, -1)
	case 7:
		_, err = re.FindAllStringIndex(s, -1)
	case 8:
		// a quick first match, then the (possibly catastrophic) rest through FindNextMatch:
		// the deadline of the second call starts at the second call
		var m *regexp2.Match
		m, err = re.FindStringMatch("xxy" + s)
		if err == nil && m != nil {
			t = time.Now()
			_, err = re.FindNextMatch(m)
		}
	case 9:
		_, err = re.FindStringMatchStartingAt("xy"+s, 2)
	}
	return time.Since(t), err
}

// runTimedHistory executes the steps and marks suspects.
func runTimedHistory(h []tStep, tol time.Duration) (obs []stepObs, snapshots []string) {
	var lastDeadline time.Time // latest deadline handed out so far (a finished match's deadline still counts)
	note := func(d time.Duration) {
		if t := time.Now().Add(d); t.After(lastDeadline) {
			lastDeadline = t
		}
	}
	curPeriod := clockPeriod
	for _, s := range h {
		o := stepObs{step: s}
		cpu0, wall0 := processCPU(), time.Now()
		switch s.kind {
		case "F":
			note(s.d)
		case "T", "Q":
			note(s.d)
		case "P":
			note(time.Duration(20+30*(s.k-1)) * time.Millisecond)
		case "M":
			note(mixedLong + 250*time.Millisecond)
		case "N", "R":
			note(s.d + 250*time.Millisecond)
		}
		switch s.kind {
		case "C":
			regexp2.SetTimeoutCheckPeriod(s.d)
			curPeriod = max(s.d, clockPeriod) // a negative period: the clock does not sleep at all
		case "F":
			pat, in := fwdPattern, fwdInput
			if s.e >= 2 {
				pat, in = fwdFlatPattern, fwdFlatInput // no loop either: the program counter only ever moves forward
			}
			re := regexp2.MustCompile(pat, regexp2.None)
			re.MatchTimeout = s.d
			t := time.Now()
			var err error
			if s.e%2 == 0 {
				_, err = re.FindRunesMatch(in)
			} else {
				_, err = re.MatchString(string(in))
			}
			lat := time.Since(t)
			o.latency = lat
			o.err = mon.ErrClass(err)
			// the error text embeds the input: allow for building it
			extra := 30*time.Millisecond + 2*(curPeriod-clockPeriod)
			switch {
			case err == nil:
				o.suspect = fmt.Sprintf("a match that runs for about a second without backtracking finished after %v without a timeout", lat)
			case !mon.IsTimeout(err):
				o.suspect = "error other than a timeout: " + err.Error()[:min(len(err.Error()), 80)]
			case lat < s.d-earlySlack-tol:
				o.suspect = fmt.Sprintf("timeout after %v, earlier than the %v requested", lat, s.d)
				o.missedBy = s.d - earlySlack - lat
			case lat > s.d+lateSlack+tol+extra:
				o.suspect = fmt.Sprintf("timeout only after %v for a %v timeout", lat, s.d)
				o.missedBy = lat - s.d - lateSlack - extra
			}
		case "T":
			lat, err := timedMatchE(s.d, catInput, s.e)
			o.latency = lat
			o.err = mon.ErrClass(err)
			switch {
			case err == nil:
				o.suspect = "a catastrophic match finished without a timeout"
			case !mon.IsTimeout(err):
				o.suspect = "error other than a timeout: " + err.Error()
			case lat < s.d-earlySlack-tol:
				o.suspect = fmt.Sprintf("timeout after %v, earlier than the %v requested", lat, s.d)
				o.missedBy = s.d - earlySlack - lat
			case lat > s.d+lateSlack+tol+2*(curPeriod-clockPeriod):
				o.suspect = fmt.Sprintf("timeout only after %v for a %v timeout (clock period %v)", lat, s.d, curPeriod)
				o.missedBy = lat - s.d - lateSlack - 2*(curPeriod-clockPeriod)
			}
		case "Q":
			lat, err := timedMatchE(s.d, quickInput, s.e)
			o.latency = lat
			o.err = mon.ErrClass(err)
			if err != nil {
				o.suspect = "a quick match with a generous timeout reported: " + err.Error()
			}
		case "I":
			time.Sleep(s.d)
		case "S":
			t := time.Now()
			regexp2.StopTimeoutClock()
			o.latency = time.Since(t)
			if clockGoroutineAlive() {
				time.Sleep(5 * time.Millisecond)
				if clockGoroutineAlive() {
					o.suspect = "the clock goroutine is still running after StopTimeoutClock returned"
				}
			}
		case "G":
			if time.Now().Before(lastDeadline.Add(time.Second + 150*time.Millisecond)) {
				o.err = "skipped: a deadline handed out earlier (plus slop) has not passed yet"
			} else if clockGoroutineAlive() {
				o.suspect = "the clock goroutine is still running although every deadline (plus the 1 s slop) has passed"
			}
		case "P":
			var wg sync.WaitGroup
			res := make([]string, s.k)
			missed := make([]time.Duration, s.k)
			t := time.Now()
			for i := 0; i < s.k; i++ {
				wg.Add(1)
				go func(i int) {
					defer wg.Done()
					d := time.Duration(20+30*i) * time.Millisecond
					lat, err := timedMatchE(d, catInput, i+s.e)
					switch {
					case err == nil || !mon.IsTimeout(err):
						res[i] = fmt.Sprintf("concurrent match %d (timeout %v) returned %v", i, d, err)
					case lat < d-earlySlack-tol:
						res[i] = fmt.Sprintf("concurrent match %d timed out after %v, earlier than %v", i, lat, d)
						missed[i] = d - earlySlack - lat
					case lat > d+lateSlack+tol+time.Duration(s.k)*5*time.Millisecond:
						res[i] = fmt.Sprintf("concurrent match %d timed out only after %v for %v", i, lat, d)
						missed[i] = lat - d - lateSlack - time.Duration(s.k)*5*time.Millisecond
					}
				}(i)
			}
			wg.Wait()
			o.latency = time.Since(t)
			for i, x := range res {
				if x != "" && (o.suspect == "" || (missed[i] == 0 && o.missedBy != 0)) {
					// prefer a non-timing complaint; among timing ones keep the first
					o.suspect, o.missedBy = x, missed[i]
				}
			}
		case "N":
			// k quick matches with a generous timeout compute their deadlines together: all of them
			// have looked at the (possibly stale) clock before the first one refreshes and restarts it
			var arrivals atomic.Int32
			all := make(chan struct{})
			k := int32(s.k)
			regexp2.VerifSetPointHook(func(id int) {
				if id != regexp2.VerifPtMakeDeadline {
					return
				}
				n := arrivals.Add(1)
				if n > k {
					return
				}
				if n == k {
					close(all)
				}
				select {
				case <-all:
				case <-time.After(100 * time.Millisecond):
				}
				time.Sleep(time.Duration(n-1) * 300 * time.Microsecond)
			})
			var wg sync.WaitGroup
			res := make([]string, s.k)
			t := time.Now()
			for i := 0; i < s.k; i++ {
				wg.Add(1)
				go func(i int) {
					defer wg.Done()
					if _, err := timedMatch(s.d, quickInput); err != nil {
						res[i] = fmt.Sprintf("concurrent quick match %d with a generous timeout (%v) reported: %v", i, s.d, err)
					}
				}(i)
			}
			wg.Wait()
			regexp2.VerifSetPointHook(nil)
			o.latency = time.Since(t)
			o.err = fmt.Sprintf("arrivals at the deadline point: %d", arrivals.Load())
			for _, x := range res {
				if x != "" && o.suspect == "" {
					o.suspect = x
				}
			}
		case "R":
			// one quick match is held between its two lock-free reads of the clock while k-1 others
			// run to completion (restarting the clock if it was stopped); it must not report a timeout
			var arrivals atomic.Int32
			first, othersDone := make(chan struct{}), make(chan struct{})
			regexp2.VerifSetPointHook(func(id int) {
				if id != regexp2.VerifPtDeadlineRead {
					return
				}
				if arrivals.Add(1) == 1 {
					close(first)
					select {
					case <-othersDone:
					case <-time.After(500 * time.Millisecond):
					}
				}
			})
			res := make([]string, s.k)
			run := func(i int) {
				if _, err := timedMatch(s.d, quickInput); err != nil {
					res[i] = fmt.Sprintf("concurrent quick match %d with a generous timeout (%v) reported: %v", i, s.d, err)
				}
			}
			t := time.Now()
			held := make(chan struct{})
			go func() { run(0); close(held) }()
			select {
			case <-first:
			case <-time.After(200 * time.Millisecond):
			}
			var wg sync.WaitGroup
			for i := 1; i < s.k; i++ {
				wg.Add(1)
				go func(i int) { defer wg.Done(); run(i) }(i)
			}
			wg.Wait()
			close(othersDone)
			<-held
			regexp2.VerifSetPointHook(nil)
			o.latency = time.Since(t)
			o.err = fmt.Sprintf("arrivals at the clock-read point: %d", arrivals.Load())
			for _, x := range res {
				if x != "" && o.suspect == "" {
					o.suspect = x
				}
			}
		case "M":
			// one match with a long timeout and k-1 with a short one enter the deadline computation
			// together: the long one is held at the hook point between the unlocked look at the
			// clock's end and the locked extension until the others are there too, goes first, and
			// the short ones extend the clock after it. Every deadline must still be honoured.
			var arrivals atomic.Int32
			var longWait atomic.Int64
			first, all := make(chan struct{}), make(chan struct{})
			k := int32(s.k)
			regexp2.VerifSetPointHook(func(id int) {
				if id != regexp2.VerifPtMakeDeadline {
					return
				}
				n := arrivals.Add(1)
				if n > k {
					return
				}
				t := time.Now()
				if n == 1 {
					close(first)
				}
				if n == k {
					close(all)
				}
				select {
				case <-all:
				case <-time.After(200 * time.Millisecond):
				}
				if n > 1 {
					time.Sleep(2 * time.Millisecond)
				} else {
					longWait.Store(int64(time.Since(t)))
				}
			})
			var wg sync.WaitGroup
			res := make([]string, s.k)
			missed := make([]time.Duration, s.k)
			t := time.Now()
			run := func(i int, d time.Duration) {
				defer wg.Done()
				lat, err := timedMatch(d, catInput)
				extra := time.Duration(s.k)*5*time.Millisecond + 10*time.Millisecond
				if i == 0 {
					extra += time.Duration(longWait.Load())
				}
				switch {
				case err == nil || !mon.IsTimeout(err):
					res[i] = fmt.Sprintf("concurrent match %d (timeout %v) returned %v", i, d, err)
				case lat < d-earlySlack-tol:
					res[i] = fmt.Sprintf("concurrent match %d timed out after %v, earlier than %v", i, lat, d)
					missed[i] = d - earlySlack - lat
				case lat > d+lateSlack+tol+extra:
					res[i] = fmt.Sprintf("concurrent match %d timed out only after %v for %v", i, lat, d)
					missed[i] = lat - d - lateSlack - extra
				}
			}
			wg.Add(1)
			go run(0, mixedLong)
			select {
			case <-first:
			case <-time.After(200 * time.Millisecond):
			}
			for i := 1; i < s.k; i++ {
				wg.Add(1)
				go run(i, mixedShort)
			}
			wg.Wait()
			regexp2.VerifSetPointHook(nil)
			o.latency = time.Since(t)
			o.err = fmt.Sprintf("arrivals at the deadline point: %d", arrivals.Load())
			for i, x := range res {
				if x != "" && (o.suspect == "" || (missed[i] == 0 && o.missedBy != 0)) {
					o.suspect, o.missedBy = x, missed[i]
				}
			}
		}
		o.cpu, o.wall = processCPU()-cpu0, time.Since(wall0)
		cur, end, running, _ := regexp2.VerifClockSnapshot()
		snapshots = append(snapshots, fmt.Sprintf("%s: current=%d clockEnd=%d running=%v", s, cur, end, running))
		obs = append(obs, o)
	}
	return
}

func fixedHistories() [][]tStep {
	T := func(ms int) tStep { return tStep{kind: "T", d: time.Duration(ms) * time.Millisecond} }
	Q := func(ms int) tStep { return tStep{kind: "Q", d: time.Duration(ms) * time.Millisecond} }
	I := func(ms int) tStep { return tStep{kind: "I", d: time.Duration(ms) * time.Millisecond} }
	S := tStep{kind: "S"}
	G := tStep{kind: "G"}
	P := func(k int) tStep { return tStep{kind: "P", k: k} }
	M := func(k int) tStep { return tStep{kind: "M", k: k, d: mixedLong} }
	N := func(k, ms int) tStep { return tStep{kind: "N", k: k, d: time.Duration(ms) * time.Millisecond} }
	F := func(ms, e int) tStep { return tStep{kind: "F", d: time.Duration(ms) * time.Millisecond, e: e} }
	C := func(ms int) tStep { return tStep{kind: "C", d: time.Duration(ms) * time.Millisecond} }
	Qmax := tStep{kind: "Q", d: time.Duration(math.MaxInt64 - 1)}
	R := func(k, ms int) tStep { return tStep{kind: "R", k: k, d: time.Duration(ms) * time.Millisecond} }
	return [][]tStep{
		{F(50, 0), T(20), F(120, 1), Q(50)}, // time spent in forward progress, not in backtracking
		{T(20), I(1300), G, F(20, 1), F(50, 0)},
		// the clock is started under a 100 ms period, the period is lowered to 1 ms while it runs: after
		// one old period every deadline must be honoured at the new precision
		{C(100), Q(5000), I(20), C(1), I(250), T(20), T(50), T(120), T(20), T(50), T(20), T(120), T(50), F(50, 0)},
		// and raised: the window widens by two periods
		{T(20), C(30), T(50), T(120), Q(5000), I(5), C(1), I(100), T(20), T(50)},
		{T(20), Qmax, T(50), S, T(20)},     // a timeout one nanosecond below "never"
		{F(50, 2), T(20), F(20, 3), Q(50)}, // forward progress through a program without a single backward jump
		// a negative check period (the clock then never sleeps): timeouts must still fire
		{C(-1), T(50), Q(50), T(20), F(50, 2), C(1), I(20), T(20)},
		{R(2, 50), T(20)},
		{T(20), I(1300), G, R(2, 50), T(20)},
		{T(50), S, I(300), R(3, 5000), T(20)},
		{T(120), R(2, 50), Q(50)},
		{N(3, 50), T(20)},                           // quick matches together on a clock that never ran
		{T(20), I(1300), G, N(3, 50), T(20)},        // ... on a clock that ran out (stale time value)
		{Q(50), I(2500), G, N(2, 5000), Q(50)},      //
		{T(20), S, I(300), N(4, 50), T(50)},         // ... on a stopped clock
		{T(120), N(3, 50), I(300), N(2, 50), Q(50)}, // ... on a running clock
		{M(3), Q(50)},                               // deadlines 10 ms and 1.5 s handed out together on a clock that never ran
		{T(20), S, M(4), T(20)},                     // ... on a stopped clock
		{T(20), I(1300), G, M(2), Q(50)},            // ... on a clock that ran out
		{T(120), M(3)},                              // ... on a running clock
		{T(20), T(50), T(120)},                      // back to back
		{T(20), I(5), T(20), Q(50)},                 // short idle
		{T(20), I(1300), G, T(20), Q(5000)},         // idle longer than timeout + slop: clock gone, restarted on demand
		{Q(50), I(1300), G, Q(50), T(50)},           // quick match after the clock has stopped with a stale time value
		{T(50), I(2500), G, Q(50), I(300), T(20)},
		{T(20), S, T(20), Q(50)},     // explicit stop, then restart
		{S, S, T(50)},                // stop with nothing running
		{P(4), I(300), Q(50), T(20)}, // concurrent deadlines, then single ones
		{P(6), I(1400), G, Q(50), T(120)},
		{T(120), S, I(5), Q(50), T(20), I(1300), G},
		{Q(5000), T(20), I(1300), G, S, T(50)},
		{T(20), I(300), T(20), I(300), T(20), S, Q(50)},
		{T(120), I(300), T(50), I(300), S, T(20), Q(50), T(50)}, // stop after ~0.8 s of clock uptime, then timed matches
		{P(4), I(300), P(3), S, T(50), T(20)},
	}
}

func randomHistory(rng *rand.Rand) []tStep {
	var h []tStep
	n := 4 + rng.Intn(5)
	longIdle, mixed := false, false
	for i := 0; i < n; i++ {
		switch rng.Intn(13) {
		case 0, 1, 2:
			h = append(h, tStep{kind: "T", d: []time.Duration{20, 50, 120}[rng.Intn(3)] * time.Millisecond, e: rng.Intn(len(entryNames))})
		case 3, 4:
			h = append(h, tStep{kind: "Q", d: []time.Duration{50, 5000}[rng.Intn(2)] * time.Millisecond, e: rng.Intn(len(entryNames))})
		case 5, 6:
			h = append(h, tStep{kind: "I", d: []time.Duration{5, 300}[rng.Intn(2)] * time.Millisecond})
		case 7:
			if !longIdle {
				h = append(h, tStep{kind: "I", d: []time.Duration{1300, 2500}[rng.Intn(2)] * time.Millisecond}, tStep{kind: "G"})
				longIdle = true
			}
		case 8:
			h = append(h, tStep{kind: "S"})
		case 9:
			if rng.Intn(3) == 0 && !mixed {
				h = append(h, tStep{kind: "M", k: 2 + rng.Intn(3), d: mixedLong})
				mixed = true
			} else {
				h = append(h, tStep{kind: "P", k: 2 + rng.Intn(5)})
			}
		case 12:
			h = append(h, tStep{kind: "F", d: []time.Duration{20, 50, 120}[rng.Intn(3)] * time.Millisecond, e: rng.Intn(4)})
		case 10:
			h = append(h, tStep{kind: "R", k: 2 + rng.Intn(2), d: []time.Duration{50, 5000}[rng.Intn(2)] * time.Millisecond})
		case 11:
			h = append(h, tStep{kind: "N", k: 2 + rng.Intn(4), d: []time.Duration{50, 5000}[rng.Intn(2)] * time.Millisecond})
		}
	}
	h = append(h, tStep{kind: "T", d: 20 * time.Millisecond})
	return h
}

// c14Obs is what a child process reports for one history.
type c14Obs struct {
	Steps     []string `json:"steps"`
	Latency   []string `json:"latency"`
	Errs      []string `json:"errs"`
	Suspects  []string `json:"suspects"`
	Snapshots []string `json:"snapshots"`
	Overshoot int64    `json:"overshoot_ns"`
	// timing misses not counted because the overshoot measured in the same run was as large
	Discounted int `json:"discounted"`
	// timing misses of a single match that got less than 70 % of a processor during the step
	Starved int `json:"starved"`
}

func allHistories(seed int64, quick bool) [][]tStep {
	histories := fixedHistories()
	// every second fixed history rotates its T and Q steps over the entry points
	n := 0
	for hi, h := range histories {
		if hi%2 == 1 {
			continue
		}
		for i := range h {
			if h[i].kind == "T" || h[i].kind == "Q" || h[i].kind == "P" {
				n++
				h[i].e = n % len(entryNames)
			}
		}
	}
	rng := rand.New(rand.NewSource(seed*314606869 + 14))
	n = 150
	if quick {
		n = 4
	}
	for k := 0; k < n; k++ {
		histories = append(histories, randomHistory(rng))
	}
	return histories
}

// c14ChildMain runs history number idx alone in this process and prints its observations.
func c14ChildMain(spec string) int {
	var idx int
	var seed int64
	var quick int
	fmt.Sscanf(spec, "%d/%d/%d", &idx, &seed, &quick)
	hs := allHistories(seed, quick == 1)
	if idx < 0 || idx >= len(hs) {
		return 2
	}
	regexp2.SetTimeoutCheckPeriod(clockPeriod)
	cal := startCalibrator()
	obs, snaps := runTimedHistory(hs[idx], 0)
	over := cal.finish()
	out := c14Obs{Snapshots: snaps, Overshoot: int64(over)}
	for i := range obs {
		// a window missed by no more than the overshoot measured during this very run says
		// nothing about the clock: the machine kept goroutines off the CPU that long
		if obs[i].missedBy > 0 && obs[i].missedBy <= 2*over+5*time.Millisecond {
			obs[i].err += fmt.Sprintf(" (window missed by %v, scheduler overshoot %v: not counted)", obs[i].missedBy, over)
			obs[i].suspect = ""
			out.Discounted++
		} else if k := obs[i].step.kind; obs[i].missedBy > 0 && (k == "T" || k == "F") && obs[i].cpu > 0 && obs[i].cpu*10 < obs[i].wall*7 {
			// a late return of ONE spinning match that got less than 70 % of a processor during the
			// step: other load kept it off the CPU, the clock cannot be blamed (a timeout that really
			// fires late keeps the processor busy meanwhile)
			obs[i].err += fmt.Sprintf(" (window missed by %v, but the step got %v of CPU in %v of wall time: not counted)", obs[i].missedBy, obs[i].cpu, obs[i].wall)
			obs[i].suspect = ""
			out.Starved++
		}
	}
	for _, o := range obs {
		out.Steps = append(out.Steps, o.step.String())
		out.Latency = append(out.Latency, o.latency.Round(100*time.Microsecond).String())
		out.Errs = append(out.Errs, o.err)
		out.Suspects = append(out.Suspects, o.suspect)
	}
	b, _ := json.Marshal(out)
	fmt.Println(string(b))
	return 0
}

// historyBudget bounds the wall time of one history in a child (a match whose timeout never
// fires would otherwise spin forever).
func historyBudget(h []tStep) time.Duration {
	d := 20 * time.Second
	for _, s := range h {
		d += min(s.d, 10*time.Second) + time.Second
	}
	return d
}

// runHistoryInChild executes one history in a fresh process under a watchdog.
func runHistoryInChild(self string, idx int, seed int64, quick bool, h []tStep) (*c14Obs, string) {
	q := 0
	if quick {
		q = 1
	}
	cmd := exec.Command(self, "-check", "C14", "-c14hist", fmt.Sprintf("%d/%d/%d", idx, seed, q))
	var out bytes.Buffer
	cmd.Stdout = &out
	if err := cmd.Start(); err != nil {
		return nil, "cannot start child: " + err.Error()
	}
	done := make(chan error, 1)
	go func() { done <- cmd.Wait() }()
	select {
	case err := <-done:
		if err != nil {
			return nil, "child failed: " + err.Error()
		}
	case <-time.After(historyBudget(h)):
		cmd.Process.Kill()
		<-done
		return nil, fmt.Sprintf("the history did not finish within %v: a timed match never returned (its timeout did not fire) or StopTimeoutClock hung", historyBudget(h))
	}
	var o c14Obs
	if err := json.Unmarshal(lastLine(out.Bytes()), &o); err != nil {
		return nil, "child output not understood"
	}
	return &o, ""
}

func histString(h []tStep) string {
	var s []string
	for _, x := range h {
		s = append(s, x.String())
	}
	return strings.Join(s, " ")
}

func runC14(r *core.Run) int {
	histories := allHistories(r.Seed, r.Quick())
	self, _ := os.Executable()
	l := r.Main()
	var suspects []string
	firstBad := func(o *c14Obs) (int, string) {
		for i, sp := range o.Suspects {
			if sp != "" {
				return i, sp
			}
		}
		return -1, ""
	}
	for hi, h := range histories {
		if r.Stopped() {
			break
		}
		o, fatal := runHistoryInChild(self, hi, r.Seed, r.Quick(), h)
		l.Count("histories", 1)
		l.Eval(int64(len(h)))
		for _, st := range h {
			l.Count("step_"+st.kind, 1)
		}
		l.Nontrivial(histString(h))
		if o != nil {
			for k := 0; k < o.Discounted; k++ {
				l.Inconclusive("timing-miss-within-measured-overshoot")
			}
			for k := 0; k < o.Starved; k++ {
				l.Inconclusive("timing-miss-under-cpu-starvation")
			}
		}
		if o != nil && hi < 2 {
			var lat []string
			for i := range o.Steps {
				lat = append(lat, fmt.Sprintf("%s=%s/%s", o.Steps[i], o.Latency[i], o.Errs[i]))
			}
			l.Sample(map[string]any{"history": histString(h), "observed": lat, "scheduler_overshoot": time.Duration(o.Overshoot).String()})
		}
		what := fatal
		if o != nil {
			if i, sp := firstBad(o); i >= 0 {
				what = o.Steps[i] + ": " + sp
			}
		}
		if what == "" {
			continue
		}
		l.Count("suspects", 1)
		// re-execute alone (fresh process each time), up to three times
		reproduced := 0
		var details []string
		for try := 0; try < 3; try++ {
			o2, fatal2 := runHistoryInChild(self, hi, r.Seed, r.Quick(), h)
			bad := fatal2
			ov := time.Duration(0)
			snap := ""
			if o2 != nil {
				ov = time.Duration(o2.Overshoot)
				snap = strings.Join(o2.Snapshots, "; ")
				if i, sp := firstBad(o2); i >= 0 {
					bad = o2.Steps[i] + ": " + sp
				}
			}
			// the child already discounted timing misses up to twice the overshoot it measured; a run
			// whose overshoot is beyond any use is not counted at all
			if bad != "" && ov <= overshootMax {
				reproduced++
				details = append(details, fmt.Sprintf("run %d (overshoot %v): %s [%s]", try+1, ov, bad, snap))
			} else if bad != "" {
				details = append(details, fmt.Sprintf("run %d: %s but scheduler overshoot was %v", try+1, bad, ov))
			}
		}
		if reproduced == 3 {
			l.Violate(core.Violation{Kind: "timeout-behaviour", Detail: fmt.Sprintf("history [%s]: %s; reproduced 3/3 in fresh processes: %s", histString(h), what, strings.Join(details, " || ")),
				Witness: core.Witness{Pattern: catPattern, Args: map[string]any{"history": histString(h), "history_index": hi, "seed": r.Seed}}})
		} else {
			l.Inconclusive("suspect-not-reproduced-3-of-3")
			suspects = append(suspects, fmt.Sprintf("[%s] %s (re-runs: %s)", histString(h), what, strings.Join(details, " || ")))
		}
	}
	l.Done()
	r.Extras["unreproduced_suspects"] = suspects
	r.Workers = 1
	r.Extras["bounds"] = map[string]any{"histories": len(histories), "clock_period": clockPeriod.String(), "window": fmt.Sprintf("[d-%v, d+%v] (+5ms per concurrent match)", earlySlack, lateSlack), "timeouts": "20/50/120 ms", "idles": "5 ms, 300 ms, 1.3 s, 2.5 s", "isolation": "every history runs in its own child process under a watchdog"}
	return r.Finish(
		"histories of timed catastrophic matches T(d) through ten entry points (FindRunesMatch, FindStringMatch, MatchString, MatchRunes, Replace, ReplaceFunc, Split, FindAllStringIndex, FindNextMatch, FindStringMatchStartingAt; must fail with a timeout inside [d-5ms, d+40ms]), timed quick matches Q(d) (must not report a timeout), idle gaps shorter and longer than timeout + the clock's 1 s slop (after the long ones the clock goroutine must be gone and timeouts must still fire), StopTimeoutClock calls (must return and leave no clock goroutine) concurrent timed matches with different deadlines P(k), N(k): k quick matches with a generous timeout whose deadline computations are held at the hook point until all have looked at the clock (none may report a timeout), F(d): a match that spends a second in forward progress without ever backtracking, once as a counted loop and once written out as 4,000 look-aheads in a row without any backward jump (must time out like T), C(p): SetTimeoutCheckPeriod while the clock runs (after one old period deadlines must be honoured at the new precision; the window widens by two periods; a negative period must not switch timeouts off), Q(max): a timeout of MaxInt64-1 ns (must not fire), R(k): a quick match held between its two lock-free clock reads while k-1 others run to completion, and M(k): one 1.5 s and k-1 10 ms deadlines computed together (the hook point between the unlocked look at the clock's end and its locked extension holds the long one until the others arrive, then lets it go first) on clocks that never ran, were stopped, ran out or are running, with a 1 ms clock period; each history runs in a fresh child process under a watchdog (a match whose timeout never fires cannot hang the check); 34 hand-ordered histories covering every predecessor/successor pair that matters plus seeded random ones; evaluation = one step; non-trivial = distinct history",
		[]string{"wall-clock verdicts: a miss is a suspect, re-executed 3 times in fresh processes with scheduler overshoot measured; a timing miss counts only if it exceeds twice the overshoot measured in the same run (+5 ms) and, for a single spinning match, only if the process got at least 70 % of a processor during the step (getrusage against wall time); violation only if reproduced 3/3, otherwise inconclusive", "millisecond-level accuracy is not claimed"},
		map[string]int64{"evaluations": 40, "distinct_nontrivial": 10, "step_T": 10, "step_G": 3, "step_S": 3})
}
