package main

import (
	"encoding/json"
	"fmt"
	"math/rand"
	"reflect"
	"regexp"
	"strings"
	"unicode"
	"unicode/utf8"

	regexp2 "github.com/dlclark/regexp2/v2"
	"github.com/dlclark/regexp2/v2/compat"
	"github.com/dlclark/regexp2/v2/syntax"

	"verif/internal/core"
	"verif/internal/gen"
	"verif/internal/mon"
	"verif/internal/ref"
)

// C06: the RE2-mode adapter against Go's regexp package.

func init() {
	register("C06", runC06, replayC06)
}

func re2Profile(rng *rand.Rand, wordBoundaries bool) *gen.Profile {
	var letters []rune
	k := 2 + rng.Intn(3)
	pool := []rune("abcxyzABZ019_-. ")
	for len(letters) < k {
		if rng.Intn(6) == 0 {
			letters = append(letters, []rune{'é', 'λ', 'ж', '中', 0x1F600}[rng.Intn(5)])
		} else {
			letters = append(letters, pool[rng.Intn(len(pool))])
		}
	}
	if rng.Intn(4) == 0 {
		letters = append(letters, '\n')
	}
	p := &gen.Profile{
		Depth: 1 + rng.Intn(3), MaxKids: 3, Letters: letters,
		Dot: true, Classes: true, Esc: true, Props: []string{"L", "Lu", "Ll", "Nd", "Greek", "P", "N"}, Posix: true,
		Anchors: []string{"^", "$", `\A`, `\z`},
		Groups:  true, Named: true, PNames: true, NonCap: true,
		InlineOpts: rng.Intn(3) == 0, OptLetters: "ms",
		Lazy: true, Spellings: true, GoSyntax: true,
		Quants: [][2]int{{0, -1}, {1, -1}, {0, 1}, {2, 2}, {1, 2}, {2, -1}, {0, 2}, {2, 3}, {3, 7}, {0, 50}, {10, 12}},
	}
	if wordBoundaries {
		p.Anchors = append(p.Anchors, `\b`, `\B`)
	}
	return p
}

// goSafeAST rejects shapes outside the common syntax: duplicate group names and
// the (?'name') spelling are not Go syntax; empty alternation branches are fine.
func goSafeAST(root *gen.Node) bool {
	ok := true
	names := map[string]bool{}
	root.Walk(func(n *gen.Node) {
		if n.K == gen.KGroup && n.Name != "" {
			if names[n.Name] || n.Quote {
				ok = false
			}
			names[n.Name] = true
		}
		if n.K == gen.KOptSet || n.K == gen.KOptGroup {
			if strings.ContainsAny(n.On+n.Off, "nx") {
				ok = false
			}
		}
		if n.K == gen.KClass && isFoldOrbitClass(n) {
			ok = false
		}
	})
	return ok
}

// isFoldOrbitClass recognises classes like [aA] whose members are exactly one
// case-fold orbit. Go's parser turns such a class into a case-folded literal,
// and its alternation factoring (regexp/syntax.Regexp.Equal ignores the
// FoldCase flag of literals) then merges it with a plain literal of the same
// letter: Go compiles [aA]x|A as (?i:A)(?:x|) and matches "a" with it. That is a
// defect of the oracle, so the shape is kept out of the compared fragment.
func isFoldOrbitClass(n *gen.Node) bool {
	if n.Neg || n.Sub != nil || len(n.Items) == 0 {
		return false
	}
	set := map[rune]bool{}
	for _, it := range n.Items {
		switch {
		case it.T == "r":
			set[it.Lo] = true
		case it.T == "range" && it.Hi-it.Lo <= 2:
			for c := it.Lo; c <= it.Hi; c++ {
				set[c] = true
			}
		default:
			return false
		}
	}
	if len(set) < 2 {
		return false
	}
	var first rune
	for c := range set {
		first = c
		break
	}
	orbit := map[rune]bool{first: true}
	for c := unicode.SimpleFold(first); c != first; c = unicode.SimpleFold(c) {
		orbit[c] = true
	}
	if len(orbit) != len(set) {
		return false
	}
	for c := range set {
		if !orbit[c] {
			return false
		}
	}
	return true
}

type c06Diff struct {
	method string
	got    string
	want   string
}

// compareMatchers calls every Matcher method on both engines.
func compareMatchers(a compat.Matcher, g compat.Matcher, s string, st func(string)) (d *c06Diff, incon bool) {
	b := []byte(s)
	var diff *c06Diff
	cmp := func(name string, got, want any) {
		st(name)
		if diff == nil && !reflect.DeepEqual(got, want) {
			diff = &c06Diff{name, fmt.Sprintf("%#v", got), fmt.Sprintf("%#v", want)}
		}
	}
	in, bad := guardCompat(func() {
		cmp("Match", a.Match(b), g.Match(b))
		cmp("MatchString", a.MatchString(s), g.MatchString(s))
		cmp("MatchReader", a.MatchReader(strings.NewReader(s)), g.MatchReader(strings.NewReader(s)))
		cmp("Find", a.Find(b), g.Find(b))
		// the returned slices end where the match ends: an append must not reach into the caller's text
		cmp("cap(Find)", cap(a.Find(b)), cap(g.Find(b)))
		cmp("cap(FindSubmatch[i])", capsOf(a.FindSubmatch(b)), capsOf(g.FindSubmatch(b)))
		cmp("cap(FindAll[i])", capsOf(a.FindAll(b, -1)), capsOf(g.FindAll(b, -1)))
		cmp("cap(FindAllSubmatch[i][j])", capsOf2(a.FindAllSubmatch(b, 2)), capsOf2(g.FindAllSubmatch(b, 2)))
		cmp("FindIndex", a.FindIndex(b), g.FindIndex(b))
		cmp("FindReaderIndex", a.FindReaderIndex(strings.NewReader(s)), g.FindReaderIndex(strings.NewReader(s)))
		cmp("FindReaderSubmatchIndex", a.FindReaderSubmatchIndex(strings.NewReader(s)), g.FindReaderSubmatchIndex(strings.NewReader(s)))
		// a reader that fails half way: any read error ends the text
		half := len(s) / 2
		for half < len(s) && !utf8.RuneStart(s[half]) {
			half++
		}
		cmp("MatchReader(failing)", a.MatchReader(&failingReader{s: s, after: half}), g.MatchReader(&failingReader{s: s, after: half}))
		cmp("FindReaderIndex(failing)", a.FindReaderIndex(&failingReader{s: s, after: half}), g.FindReaderIndex(&failingReader{s: s, after: half}))
		cmp("FindReaderSubmatchIndex(failing)", a.FindReaderSubmatchIndex(&failingReader{s: s, after: half}), g.FindReaderSubmatchIndex(&failingReader{s: s, after: half}))
		cmp("FindString", a.FindString(s), g.FindString(s))
		cmp("FindStringSubmatch", a.FindStringSubmatch(s), g.FindStringSubmatch(s))
		cmp("FindStringIndex", a.FindStringIndex(s), g.FindStringIndex(s))
		cmp("FindStringSubmatchIndex", a.FindStringSubmatchIndex(s), g.FindStringSubmatchIndex(s))
		cmp("FindSubmatch", a.FindSubmatch(b), g.FindSubmatch(b))
		cmp("FindSubmatchIndex", a.FindSubmatchIndex(b), g.FindSubmatchIndex(b))
		for _, n := range []int{-1, 0, 1, 2, 3} {
			t := fmt.Sprintf("(n=%d)", n)
			cmp("FindAll"+t, a.FindAll(b, n), g.FindAll(b, n))
			cmp("FindAllIndex"+t, a.FindAllIndex(b, n), g.FindAllIndex(b, n))
			cmp("FindAllStringIndex"+t, a.FindAllStringIndex(s, n), g.FindAllStringIndex(s, n))
			cmp("FindAllStringSubmatchIndex"+t, a.FindAllStringSubmatchIndex(s, n), g.FindAllStringSubmatchIndex(s, n))
			cmp("FindAllSubmatch"+t, a.FindAllSubmatch(b, n), g.FindAllSubmatch(b, n))
			cmp("FindAllSubmatchIndex"+t, a.FindAllSubmatchIndex(b, n), g.FindAllSubmatchIndex(b, n))
			cmp("FindAllString"+t, a.FindAllString(s, n), g.FindAllString(s, n))
			cmp("FindAllStringSubmatch"+t, a.FindAllStringSubmatch(s, n), g.FindAllStringSubmatch(s, n))
		}
	})
	if in {
		return nil, true
	}
	if bad != "" {
		return &c06Diff{"panic", bad, "no panic"}, false
	}
	return diff, false
}

func capsOf(x [][]byte) []int {
	var out []int
	for _, e := range x {
		out = append(out, cap(e))
	}
	return out
}

func capsOf2(x [][][]byte) []int {
	var out []int
	for _, e := range x {
		out = append(out, capsOf(e)...)
	}
	return out
}

// refAll computes FindAllStringSubmatchIndex(s,-1) with the executable
// specification; asciiBoundary selects Go's \b, otherwise the engine's.
func refAll(pat *gen.Pattern, goOrder []int, s string, asciiBoundary bool) ([][]int, bool) {
	im := mon.NewIndexMap(s)
	m := &ref.Matcher{Text: im.Runes, D: ref.Dialect{RE2: true}, Budget: 3000000, ASCIIBoundary: asciiBoundary}
	var out [][]int
	start, prevEnd := 0, -1
	for start <= len(im.Runes) {
		res, err := m.Find(pat.AST, pat.Groups.Max, start, false)
		if err != nil {
			return nil, false
		}
		if !res.Found {
			break
		}
		g0 := res.Groups[0][0]
		if g0.Length != 0 || g0.Index != prevEnd {
			row := []int{}
			for _, num := range goOrder {
				sp := res.Groups[num]
				if len(sp) == 0 {
					row = append(row, -1, -1)
				} else {
					l := sp[len(sp)-1]
					row = append(row, im.Off[l.Index], im.Off[l.Index+l.Length])
				}
			}
			out = append(out, row)
			prevEnd = g0.Index + g0.Length
		}
		if g0.Length == 0 {
			start = g0.Index + 1
		} else {
			start = g0.Index + g0.Length
		}
	}
	return out, true
}

type c06Case struct {
	pat     *gen.Pattern
	src     string
	a       *compat.Regexp
	ordered *compat.Regexp // same pattern with OptionMaintainCaptureOrder
	g       *regexp.Regexp
	hasWB   bool
	mixed   bool                  // named and unnamed groups both present
	gated   func() compat.Matcher // the adapter with only the loop-followed-by-\B auto-atomic clauses off (K1)
}

func buildC06(ast *gen.Node) (*c06Case, string) {
	pat := gen.Finish(ast, gen.Env{}, false, gen.PrintOpts{GoSyntax: true})
	if pat == nil {
		return nil, ""
	}
	c := &c06Case{pat: pat, src: pat.Src}
	g, err := regexp.Compile(pat.Src)
	if err != nil {
		return nil, "" // not in the common syntax
	}
	c.g = g
	re, err := mon.Compile(pat.Src, int(regexp2.RE2), 0)
	if err != nil {
		return c, "Go's regexp accepts the pattern, regexp2 in RE2 mode rejects it: " + err.Error()
	}
	re.MatchTimeout = shortTimeout
	c.a = compat.Wrap(re)
	if ro, err := mon.Compile(pat.Src, int(regexp2.RE2), mon.COMaintainOrder); err == nil {
		ro.MatchTimeout = shortTimeout
		c.ordered = compat.Wrap(ro)
	}
	c.gated = func() compat.Matcher {
		rg, err := mon.CompileGated(syntax.VerifRewriteNonBoundaryAtomic, pat.Src, int(regexp2.RE2), 0)
		if err != nil {
			return nil
		}
		rg.MatchTimeout = shortTimeout
		return compat.Wrap(rg)
	}
	named, unnamed := false, false
	ast.Walk(func(n *gen.Node) {
		if n.K == gen.KAnchor && (n.Anchor == `\b` || n.Anchor == `\B`) {
			c.hasWB = true
		}
		if n.K == gen.KGroup && n.Capture {
			if n.Name != "" {
				named = true
			} else {
				unnamed = true
			}
		}
	})
	c.mixed = named && unnamed
	return c, ""
}

// classify decides whether a divergence falls into a listed known finding.
// It returns the class name or "".
func (c *c06Case) classify(s string) []string {
	one := func(x string) []string {
		if x == "" {
			return nil
		}
		return []string{x}
	}
	var gated compat.Matcher
	if c.hasWB {
		// K1: a loop over non-word / non-digit characters followed by \B is made atomic
		if gated = c.gated(); gated != nil {
			d, in := compareMatchers(gated, c.g, s, func(string) {})
			if in {
				return one("inconclusive")
			}
			if d == nil {
				return one("nonboundary-auto-atomic")
			}
		}
	}
	if cl := c.classify1(s, c.a); cl != "" {
		return one(cl)
	}
	if gated != nil {
		// both K1 and the Unicode word boundary at once
		cl := c.classify1(s, gated)
		if cl == "inconclusive" {
			return one(cl)
		}
		if cl == "re2-unicode-word-boundary" {
			if d, in := compareMatchers(gated, c.a, s, func(string) {}); !in && d != nil {
				return []string{"nonboundary-auto-atomic", cl}
			}
		}
	}
	return nil
}

func (c *c06Case) classify1(s string, a compat.Matcher) string {
	// D12: named groups are numbered after unnamed ones unless MaintainCaptureOrder is given
	if c.mixed && c.ordered != nil {
		d, in := compareMatchers(c.ordered, c.g, s, func(string) {})
		if in {
			return "inconclusive" // the re-computation itself ran into a resource error
		}
		if d == nil {
			return "re2-named-group-numbering"
		}
	}
	// D11: \b / \B use Unicode word characters in RE2 mode, Go's are ASCII
	if c.hasWB {
		goOrder := goGroupOrder(c.pat)
		var engOrder []int
		engOrder = append(engOrder, c.pat.Groups.Numbers...)
		uni, ok1 := refAll(c.pat, engOrder, s, false)
		asc, ok2 := refAll(c.pat, goOrder, s, true)
		if !ok1 || !ok2 {
			return "inconclusive" // the specification ran out of its step budget on this pattern: nothing can be attributed
		}
		if ok1 && ok2 {
			var eng, gov [][]int
			in, bad := guardCompat(func() {
				eng = a.FindAllStringSubmatchIndex(s, -1)
				gov = c.g.FindAllStringSubmatchIndex(s, -1)
			})
			if !in && bad == "" && normPairs(eng) == normPairs(uni) && normPairs(gov) == normPairs(asc) {
				return "re2-unicode-word-boundary"
			}
		}
	}
	return ""
}

// goGroupOrder lists regexp2 group numbers in Go's (pattern) order.
func goGroupOrder(pat *gen.Pattern) []int {
	order := []int{0}
	pat.AST.Walk(func(n *gen.Node) {
		if n.K == gen.KGroup && n.Capture && n.Cap > 0 {
			order = append(order, n.Cap)
		}
	})
	return order
}

func replayC06(w core.Witness) string {
	if reg, _ := w.Args["regression"].(string); reg == "reader-error" {
		return runRegression("compat-reader-error")
	}
	if w.Kind == "text" {
		return replayC06Text(w)
	}
	var ast gen.Node
	if err := json.Unmarshal(w.AST, &ast); err != nil {
		return "witness has no AST"
	}
	c, bad := buildC06(&ast)
	if bad != "" {
		return bad
	}
	if c == nil {
		return ""
	}
	s := w.Input
	if w.InputHex != "" {
		s = unhex(w.InputHex)
	}
	d, in := compareMatchers(c.a, c.g, s, func(string) {})
	if d == nil || in {
		return ""
	}
	return fmt.Sprintf("%s on %q: adapter %s, Go regexp %s", d.method, s, d.got, d.want)
}

func runC06(r *core.Run) int {
	r.ReplayKnown(replayC06)
	nPat := r.Pick(7000, 150000)
	nDirected := r.Pick(18, 30)
	base := rand.New(rand.NewSource(r.Seed*122949829 + 6)).Int63()
	runC06Text(r)
	r.Parallel(nPat, func(i int, l *core.Local) {
		rng := rand.New(rand.NewSource(base + int64(i)*1000003))
		wb := rng.Intn(20) == 0
		prof := re2Profile(rng, wb)
		g := gen.NewG(rng, prof)
		var c *c06Case
		for tries := 0; tries < 20 && c == nil; tries++ {
			p := g.Random(gen.Env{}, false)
			if !goSafeAST(p.AST) {
				continue
			}
			cc, bad := buildC06(p.AST)
			if bad != "" {
				ast, _ := json.Marshal(p.AST)
				l.Violate(core.Violation{Kind: "common-syntax-rejected", Detail: bad, Witness: core.Witness{Pattern: p.Src, AST: ast, Options: int(regexp2.RE2)}})
				return
			}
			if cc == nil {
				l.Count("patterns_go_rejects", 1)
				continue
			}
			c = cc
		}
		if c == nil || !r.ClaimPattern(c.src) {
			return
		}
		l.Count("patterns", 1)
		if c.hasWB {
			l.Count("patterns_with_word_boundary", 1)
		}
		if c.mixed {
			l.Count("patterns_mixing_named_and_unnamed_groups", 1)
		}
		pc := &patCase{src: c.src, opts: int(regexp2.RE2), pat: c.pat}
		st := func(k string) { l.Count("method_"+k, 1) }
		var nontriv int64
		timeouts := 0
		for k, runes := range inputsFor(pc, rng, 3, nDirected) {
			if r.Stopped() {
				return
			}
			if !validRunes(runes) {
				continue
			}
			s := string(runes)
			if k%5 == 4 {
				s = corrupt(s, rng)
				l.Count("inputs_with_invalid_utf8", 1)
			}
			d, in := compareMatchers(c.a, c.g, s, st)
			l.Eval(1)
			if in {
				l.Inconclusive("engine-resource-error")
				timeouts++
				if timeouts >= 3 {
					break
				}
				continue
			}
			if c.g.MatchString(s) {
				nontriv++
				if nontriv == 1 {
					l.Sample(map[string]any{"pattern": c.src, "input": s, "go_FindAllStringSubmatchIndex": fmt.Sprint(c.g.FindAllStringSubmatchIndex(s, -1))})
				}
			}
			if d != nil {
				classes := c.classify(s)
				if len(classes) == 1 && classes[0] == "inconclusive" {
					l.Inconclusive("classification-resource-error")
					continue
				}
				if len(classes) > 0 {
					all := true
					for _, class := range classes {
						if r.KnownClass(class) == nil {
							all = false
						}
					}
					if all {
						for _, class := range classes {
							r.KnownHit(r.KnownClass(class).ID)
						}
						continue
					}
				}
				ast, _ := json.Marshal(c.pat.AST)
				w := core.Witness{Pattern: c.src, AST: ast, Options: int(regexp2.RE2)}
				if utf8.ValidString(s) {
					w.Input = s
				} else {
					w.InputHex = fmt.Sprintf("%x", s)
				}
				l.Violate(core.Violation{Kind: "differs-from-go-regexp", Detail: fmt.Sprintf("%s on %q: adapter %s, Go regexp %s", d.method, s, d.got, d.want), Observed: d.got, Expected: d.want, Witness: w})
				return
			}
		}
		l.NontrivialN(nontriv)
	})
	r.Extras["bounds"] = map[string]any{"patterns": nPat, "exhaustive_len": 3, "directed_inputs_per_pattern": nDirected, "n": []int{-1, 0, 1, 2, 3}, "methods": 25}
	return r.Finish(
		"patterns printed from random ASTs restricted to the RE2-common constructs (literals and escapes, ., classes incl. \\d\\w\\s, \\p{..}, POSIX names, ^ $ \\A \\z, (?m)(?s), capturing / (?:) / (?P<n>) / (?<n>) groups, alternation incl. empty branches, greedy and lazy quantifiers with counts up to 50 over non-nullable bodies; 5% with \\b/\\B); patterns Go rejects are skipped; plus three families given as text: directly nested counted loops (?:X{m,n}){p,q} (a difference is accepted as the known multiplication of repeaters only when the adapter agrees with Go's regexp compiled from the multiplied pattern on every method), a class under a long count ({2}..{50}, exact, bounded or open) followed by a literal or small class on texts with runs of count-1, count and count+1 members, and negated / plain POSIX classes with and without (?i) against single runes; every Matcher method (22 + the three reader methods on a reader that fails half way, n in {-1,0,1,2,3}) of compat.Regexp (RE2 option) vs *regexp.Regexp on ASCII, multi-byte, invalid UTF-8 and empty inputs; evaluation = one (pattern,input); non-trivial = distinct (pattern,input) that Go matches",
		[]string{"Go's regexp is the oracle", "classes whose members are exactly one case-fold orbit ([aA]) are left out: Go's parser merges the folded literal it makes of them with a plain literal during alternation factoring ([aA]x|A matches \"a\" in Go)", "known divergences (Unicode \\b, named-group numbering, the \\B auto-atomic rewrite) are suppressed only when the explained-by recomputation reproduces both engines"},
		map[string]int64{"evaluations": 20000, "distinct_nontrivial": 5000, "method_FindAllStringSubmatchIndex(n=-1)": 20000})
}
