package main

import (
	"encoding/json"
	"fmt"
	"math/rand"

	regexp2 "github.com/dlclark/regexp2/v2"
	"github.com/dlclark/regexp2/v2/syntax"

	"verif/internal/core"
	"verif/internal/gen"
	"verif/internal/mon"
	"verif/internal/ref"
)

// C01 / C15: the engine against the executable specification on the fragment of
// the property, left-to-right (C01) and right-to-left (C15).

func init() {
	register("C01", func(r *core.Run) int { return runSpec(r, false) }, func(w core.Witness) string { return replaySpec(w) })
	register("C15", func(r *core.Run) int { return runSpec(r, true) }, func(w core.Witness) string {
		if w.Kind == "mirror" {
			return replayMirror(w)
		}
		return replaySpec(w)
	})
}

var (
	poolPlain = []rune("abcxyzAB019_- \n.") // '.' etc. are escaped by the printer
	poolWide  = []rune{'é', 'λ', 'ж', '中', 0x0301, 0x1F600, 'ß', 0xFFFD}
)

// specProfile builds the C01 fragment profile for one pattern.
func specProfile(rng *rand.Rand, icCapable bool, rtl bool) *gen.Profile {
	var letters []rune
	k := 2 + rng.Intn(3)
	if icCapable {
		for len(letters) < k {
			i := rng.Intn(len(gen.PairLower))
			if rng.Intn(3) == 0 {
				letters = append(letters, gen.PairUpper[i])
			} else {
				letters = append(letters, gen.PairLower[i])
			}
			// keep it mostly ASCII
			if i >= 24 && rng.Intn(2) == 0 {
				letters = letters[:len(letters)-1]
			}
		}
		if rng.Intn(3) == 0 {
			letters = append(letters, []rune("1_ \n-")[rng.Intn(5)])
		}
	} else {
		for len(letters) < k {
			if rng.Intn(6) == 0 {
				letters = append(letters, poolWide[rng.Intn(len(poolWide))])
			} else {
				letters = append(letters, poolPlain[rng.Intn(len(poolPlain))])
			}
		}
	}
	p := &gen.Profile{
		Depth: 1 + rng.Intn(3), MaxKids: 3, Letters: letters,
		Dot: true, Classes: true, Esc: true,
		Anchors: []string{"^", "$", `\A`, `\z`, `\Z`, `\b`, `\B`, `\G`},
		Groups:  true, Named: true, NonCap: true,
		LookAhead: true, LookBehind: true, Atomic: true, Backrefs: true,
		CondRef: true, CondExpr: true,
		InlineOpts: rng.Intn(3) == 0, Comments: rng.Intn(4) == 0,
		Lazy: true, Spellings: true,
	}
	if icCapable {
		p.PairRanges = true
		p.OptLetters = "imsnx"
	} else {
		p.OptLetters = "msnx"
		p.Props = []string{"L", "Lu", "Ll", "Nd", "Greek", "P"}
		p.Subtract = true
	}
	return p
}

type specCase struct {
	pat   *gen.Pattern
	opts  int
	rtl   bool
	re    *regexp2.Regexp
	d     ref.Dialect
	alpha []rune
}

func envOf(opts int) gen.Env {
	return gen.Env{
		IC: opts&int(regexp2.IgnoreCase) != 0,
		ML: opts&int(regexp2.Multiline) != 0,
		SL: opts&int(regexp2.Singleline) != 0,
		N:  opts&int(regexp2.ExplicitCapture) != 0,
		X:  opts&int(regexp2.IgnorePatternWhitespace) != 0,
	}
}

// specCompare runs engine and specification on one (input, start); returns a
// non-empty detail on disagreement, and inconclusive=true when either side ran
// out of its budget.
func specCompare(c *specCase, runes []rune, start int) (detail, got, want string, incon string) {
	m := &ref.Matcher{Text: runes, D: c.d, Budget: 1500000}
	res, err := m.Find(c.pat.AST, c.pat.Groups.Max, start, c.rtl)
	if err != nil {
		return "", "", "", "reference-budget"
	}
	want = res.String(c.pat.Groups.Numbers)
	em, eerr := c.re.FindRunesMatchStartingAt(runes, start)
	if eerr != nil {
		if mon.ResourceErr(eerr) {
			return "", "", "", "engine-" + mon.ErrClass(eerr)
		}
		return "engine returned an error: " + eerr.Error(), "error", want, ""
	}
	got = mon.Obs(em, c.pat.Groups.Numbers)
	if got != want {
		return fmt.Sprintf("FindRunesMatchStartingAt(%q, %d) = %s, specification says %s", string(runes), start, got, want), got, want, ""
	}
	return "", got, want, ""
}

func specWitness(c *specCase, runes []rune, start int) core.Witness {
	ast, _ := json.Marshal(c.pat.AST)
	w := core.Witness{Pattern: c.pat.Src, AST: ast, Options: c.opts, Start: start}
	for _, r := range runes {
		w.InputRune = append(w.InputRune, int32(r))
	}
	w.Input = string(runes)
	return w
}

func buildSpecCase(ast *gen.Node, opts int) (*specCase, error) {
	rtl := opts&int(regexp2.RightToLeft) != 0
	pat := gen.Finish(ast, envOf(opts), false, gen.PrintOpts{})
	if pat == nil {
		return nil, fmt.Errorf("AST is not printable under these options")
	}
	re, err := mon.Compile(pat.Src, opts, 0)
	if err != nil {
		return &specCase{pat: pat, opts: opts, rtl: rtl}, err
	}
	return &specCase{pat: pat, opts: opts, rtl: rtl, re: re, d: ref.Dialect{RE2: opts&int(regexp2.RE2) != 0}}, nil
}

// shrinkSpec reduces a failing (pattern, input, start) inside the fragment.
func shrinkSpec(c *specCase, runes []rune, start int) (*specCase, []rune, int) {
	failsWith := func(ast *gen.Node, in []rune, st int) *specCase {
		nc, err := buildSpecCase(ast.Clone(), c.opts)
		if err != nil || nc == nil || nc.re == nil {
			return nil
		}
		d, _, w2, incon := specCompare(nc, in, st)
		if incon != "" || d == "" || specExplainedByNonBoundaryAtomic(nc, in, st, w2) {
			return nil
		}
		return nc
	}
	best := c
	ast := gen.Shrink(c.pat.AST, gen.FragmentOK, func(a *gen.Node) bool { return failsWith(a, runes, start) != nil }, 600)
	if nc := failsWith(ast, runes, start); nc != nil {
		best = nc
	}
	// shrink the input
	in := append([]rune(nil), runes...)
	for changed := true; changed; {
		changed = false
		for i := 0; i < len(in); i++ {
			cand := append(append([]rune(nil), in[:i]...), in[i+1:]...)
			st := start
			if i < start {
				st--
			}
			if st > len(cand) {
				st = len(cand)
			}
			if failsWith(best.pat.AST, cand, st) != nil {
				in, start, changed = cand, st, true
				break
			}
		}
	}
	// second AST pass on the smaller input
	ast = gen.Shrink(best.pat.AST, gen.FragmentOK, func(a *gen.Node) bool { return failsWith(a, in, start) != nil }, 300)
	if nc := failsWith(ast, in, start); nc != nil {
		best = nc
	}
	return best, in, start
}

func replaySpec(w core.Witness) string {
	var ast gen.Node
	if err := json.Unmarshal(w.AST, &ast); err != nil {
		return "witness has no usable AST: " + err.Error()
	}
	c, err := buildSpecCase(&ast, w.Options)
	if err != nil {
		return "pattern of the fragment does not compile: " + err.Error()
	}
	if w.Pattern != "" && c.pat.Src != w.Pattern {
		return fmt.Sprintf("replay printed %q, witness says %q (harness changed?)", c.pat.Src, w.Pattern)
	}
	runes := make([]rune, len(w.InputRune))
	for i, r := range w.InputRune {
		runes[i] = rune(r)
	}
	if w.InputRune == nil {
		runes = []rune(w.Input)
	}
	detail, _, _, incon := specCompare(c, runes, w.Start)
	if incon != "" {
		return ""
	}
	return detail
}

func runSpec(r *core.Run, rtl bool) int {
	r.ReplayKnown(func(w core.Witness) string {
		if w.Kind == "mirror" {
			return replayMirror(w)
		}
		if w.Kind == "literal-runes" {
			return replayLiteralRunes(w)
		}
		return replaySpec(w)
	})
	runLiteralRunes(r, rtl)
	nPat := r.Pick(2400, 24000)
	maxLen := r.Pick(5, 6)
	nDirected := r.Pick(40, 120)
	base := rand.New(rand.NewSource(r.Seed*7919 + 17)).Int63()
	r.Parallel(nPat, func(i int, l *core.Local) {
		rng := rand.New(rand.NewSource(base + int64(i)*1000003))
		// options
		opts := 0
		icCapable := rng.Intn(2) == 0
		if rtl {
			opts |= int(regexp2.RightToLeft)
			for _, o := range []regexp2.RegexOptions{regexp2.IgnoreCase, regexp2.Multiline, regexp2.Singleline} {
				if rng.Intn(3) == 0 && (o != regexp2.IgnoreCase || icCapable) {
					opts |= int(o)
				}
			}
		} else {
			for _, o := range []regexp2.RegexOptions{regexp2.IgnoreCase, regexp2.Multiline, regexp2.Singleline, regexp2.ExplicitCapture, regexp2.IgnorePatternWhitespace, regexp2.RE2} {
				if rng.Intn(4) == 0 && (o != regexp2.IgnoreCase || icCapable) {
					opts |= int(o)
				}
			}
		}
		prof := specProfile(rng, icCapable, rtl)
		g := gen.NewG(rng, prof)
		var pat *gen.Pattern
		if i%2 == 0 {
			// a shape template (search modes, rewrite side conditions) when it lies inside the fragment
			t := &gen.T{R: rng, Let: prof.Letters}
			for tries := 0; tries < 8 && pat == nil; tries++ {
				k := rng.Intn(len(gen.TemplateNames))
				root := t.Template(k)
				if !gen.FragmentOK(root) {
					continue
				}
				if p := gen.Finish(root, envOf(opts), false, gen.PrintOpts{}); p != nil {
					pat = p
					l.Count("template_"+gen.TemplateNames[k], 1)
				}
			}
		}
		if pat == nil {
			pat = g.Random(envOf(opts), false)
		}
		if !rtl && i%4 == 1 {
			// the same pattern as the body of a look-behind: its content runs right to left, so every
			// opcode's right-to-left half is reached through the left-to-right API as well
			wrapped := gen.Cat(gen.Look(false, i%8 == 5, pat.AST.Clone()), &gen.Node{K: gen.KEmpty})
			if rng.Intn(2) == 0 {
				wrapped.Kids[1] = gen.L(prof.Letters[rng.Intn(len(prof.Letters))])
			}
			if p := gen.Finish(wrapped, envOf(opts), false, gen.PrintOpts{}); p != nil && gen.FragmentOK(wrapped) {
				pat = p
				l.Count("patterns_wrapped_in_lookbehind", 1)
			}
		}
		if !r.ClaimPattern(fmt.Sprintf("%d/%s", opts, pat.Src)) {
			l.Count("duplicate_patterns", 1)
			return
		}
		c, err := buildSpecCase(pat.AST, opts)
		if err != nil {
			l.Count("compile_errors", 1)
			l.Violate(core.Violation{Kind: "fragment-pattern-rejected", Detail: "Compile: " + err.Error(), Witness: specWitness(&specCase{pat: pat, opts: opts}, nil, 0)})
			return
		}
		l.Count("patterns", 1)
		pat.AST.Walk(func(n *gen.Node) { l.Count(fmt.Sprintf("node_kind_%02d", int(n.K)), 1) })
		l.Count(fmt.Sprintf("options_%#x", opts), 1)

		alpha := gen.Alphabet(pat.AST, icCapable)
		// bounded-exhaustive part over at most 4 symbols
		ex := append([]rune(nil), alpha...)
		rng.Shuffle(len(ex), func(a, b int) { ex[a], ex[b] = ex[b], ex[a] })
		if len(ex) > 4 {
			ex = ex[:4]
		}
		ml := maxLen
		if len(ex) == 4 && ml > 5 && rng.Intn(2) == 0 {
			ml = 5
		}
		if len(ex) <= 2 {
			ml += 2
		} else if len(ex) == 3 {
			ml++
		}
		seenInputs := map[string]bool{}
		var nontrivial int64
		bad := false
		budgetHits := 0
		try := func(runes []rune) {
			if bad || r.Stopped() {
				return
			}
			key := string(runes)
			if seenInputs[key] {
				return
			}
			seenInputs[key] = true
			matched := false
			for s := 0; s <= len(runes); s += offsetStep(len(runes), s) {
				detail, got, want, incon := specCompare(c, runes, s)
				l.Eval(1)
				if incon != "" {
					l.Inconclusive(incon)
					budgetHits++
					if budgetHits >= 6 {
						// a catastrophic pattern for the reference matcher: stop spending the run on it
						bad = true
						l.Count("patterns_abandoned_after_budget_hits", 1)
						return
					}
					continue
				}
				if want != "nil" {
					matched = true
				}
				if detail != "" {
					if k := r.KnownClass("nonboundary-auto-atomic"); k != nil && specExplainedByNonBoundaryAtomic(c, runes, s, want) {
						r.KnownHit(k.ID)
						continue
					}
					sc, sr, ss := shrinkSpec(c, runes, s)
					d2, g2, w2, _ := specCompare(sc, sr, ss)
					if d2 == "" {
						sc, sr, ss, d2, g2, w2 = c, runes, s, detail, got, want
					}
					w := specWitness(sc, sr, ss)
					w.Args = map[string]any{"original_pattern": c.pat.Src, "original_input": string(runes), "original_start": s}
					l.Violate(core.Violation{Kind: "spec-mismatch", Detail: d2, Observed: g2, Expected: w2, Witness: w})
					bad = true
					return
				}
				if s == 0 && !rtl || (rtl && s == len(runes)) {
					// the string entry point must agree as well
					sm, serr := c.re.FindStringMatch(string(runes))
					if serr == nil {
						if sg := mon.Obs(sm, c.pat.Groups.Numbers); sg != want {
							w := specWitness(c, runes, s)
							w.Kind = "FindStringMatch"
							l.Violate(core.Violation{Kind: "spec-mismatch-string-api", Detail: fmt.Sprintf("FindStringMatch(%q) = %s, specification says %s", string(runes), sg, want), Observed: sg, Expected: want, Witness: w})
							bad = true
							return
						}
					}
				}
			}
			if matched {
				nontrivial++
				if nontrivial == 1 {
					l.Sample(map[string]any{"pattern": pat.Src, "options": opts, "input": key})
				}
			}
		}
		gen.Exhaustive(ex, ml, func(s []rune) { try(append([]rune(nil), s...)) })
		sm := &gen.Sampler{R: rng, Alpha: alpha, Class: func(n *gen.Node, ch rune) bool { return ref.ClassMatch(n, ch, n.E.IC, c.d) }}
		extra := gen.Decorations
		if icCapable {
			extra = gen.PairDecorations
		}
		for k := 0; k < nDirected; k++ {
			try(sm.Directed(pat.AST, extra))
		}
		l.NontrivialN(nontrivial)
		l.Count("inputs", int64(len(seenInputs)))
	})
	what := "left-to-right"
	mirrorRule := ""
	if rtl {
		what = "RightToLeft"
		runMirror(r)
		mirrorRule = "; second phase, the mirror oracle: full-syntax patterns (balancing groups, conditionals, atomic groups, back-references, nested look-around; groups named so that numbering does not depend on order) matched left to right on a text against their mirror image (sequences reversed, look-ahead/behind and start/end anchors exchanged) matched RightToLeft on the reversed text, at every start offset: both must find mirrored matches with mirrored captures (counters mirror_*)"
	}
	r.Extras["bounds"] = map[string]any{"patterns": nPat, "max_exhaustive_len": maxLen, "exhaustive_alphabet": "<=4 pattern-derived symbols", "directed_inputs_per_pattern": nDirected, "ast_depth": "1-3", "reference_step_budget": 1500000}
	return r.Finish(
		"patterns printed from random ASTs of the C01 fragment ("+what+")"+mirrorRule+"; first phase: per pattern every string up to the length bound over <=4 pattern-derived symbols plus pattern-directed strings, at every start offset; evaluation = one (pattern,input,start) comparison of FindRunesMatchStartingAt (and FindStringMatch at the scan origin) with the executable specification; non-trivial = distinct (pattern,options,input) for which the specification finds a match at some start offset (patterns and inputs are de-duplicated, so the count is exact)",
		[]string{"the executable specification (internal/ref) is trusted", "IgnoreCase cases use only letters whose fold orbit is a simple pair", "cases where the reference budget or the engine's MatchTimeout ran out are inconclusive"},
		map[string]int64{"evaluations": 50000, "distinct_nontrivial": 2000, "patterns": 100})
}

// specExplainedByNonBoundaryAtomic: class predicate of known finding K1 for the
// specification checks: with only the loop-followed-by-\B auto-atomic clauses
// gated off the engine agrees with the specification.
func specExplainedByNonBoundaryAtomic(c *specCase, runes []rune, start int, want string) bool {
	if c.rtl {
		return false
	}
	re, err := mon.CompileGated(syntax.VerifRewriteNonBoundaryAtomic, c.pat.Src, c.opts, 0)
	if err != nil {
		return false
	}
	m, err := re.FindRunesMatchStartingAt(runes, start)
	if err != nil {
		return false
	}
	return mon.Obs(m, c.pat.Groups.Numbers) == want
}
