package main

import (
	"fmt"
	"math/rand"
	"reflect"
	"strings"
	"unicode/utf8"

	regexp2 "github.com/dlclark/regexp2/v2"
	"github.com/dlclark/regexp2/v2/compat"

	"verif/internal/core"
	"verif/internal/mon"
)

// C02: every public entry point against the canonical rune-API match chain of
// the same compiled Regexp.

func init() {
	register("C02", runC02, replayC02)
}

type epStats struct {
	count func(string)
}

// guardCompat runs a compat method; a panic carrying a resource error is
// reported as inconclusive, any other panic as a violation text.
func guardCompat(f func()) (incon bool, bad string) {
	p, st := core.Guard(f)
	if p == nil {
		return false, ""
	}
	if err, ok := p.(error); ok && mon.ResourceErr(err) {
		return true, ""
	}
	return false, fmt.Sprintf("compat method panicked: %v\n%s", p, st)
}

func byteSpan(im *mon.IndexMap, idx, length int) []int {
	return []int{im.Off[idx], im.Off[idx+length]}
}

func submatchIndex(im *mon.IndexMap, m *mon.MatchObs) []int {
	out := make([]int, 0, 2*len(m.Groups))
	for _, g := range m.Groups {
		if len(g) == 0 {
			out = append(out, -1, -1)
			continue
		}
		last := g[len(g)-1]
		out = append(out, im.Off[last.Index], im.Off[last.Index+last.Length])
	}
	return out
}

func submatchStrings(s string, im *mon.IndexMap, m *mon.MatchObs) []string {
	out := make([]string, len(m.Groups))
	for i, g := range m.Groups {
		if len(g) > 0 {
			last := g[len(g)-1]
			out[i] = rawText(s, im, last.Index, last.Length)
		}
	}
	return out
}

// rawText is the text of a rune span as a substring of the original input (raw bytes).
func rawText(s string, im *mon.IndexMap, idx, length int) string {
	return s[im.Off[idx]:im.Off[idx+length]]
}

// entryPoints judges all entry points of re on the string s (which may hold
// invalid UTF-8). It returns the first disagreement.
func entryPoints(re *regexp2.Regexp, s string, st epStats) (detail string, incon string, chainLen int) {
	im := mon.NewIndexMap(s)
	runes := im.Runes
	rtl := re.RightToLeft()
	valid := utf8.ValidString(s)
	chain, err, runaway := mon.Chain(re, runes)
	if err != nil {
		if mon.ResourceErr(err) {
			return "", "chain-" + mon.ErrClass(err), 0
		}
		return "FindRunesMatch/FindNextMatch returned an error: " + err.Error(), "", 0
	}
	if runaway {
		return fmt.Sprintf("FindNextMatch iteration over %q did not stop after len+2 matches", s), "", len(chain)
	}
	found := len(chain) > 0
	resErr := func(e error) bool {
		if e != nil && mon.ResourceErr(e) {
			incon = "entry-" + mon.ErrClass(e)
			return true
		}
		return false
	}
	obsOf := func(o *mon.MatchObs) string {
		if o == nil {
			return "nil"
		}
		return o.Text
	}
	var first *mon.MatchObs
	if found {
		first = chain[0]
	}

	// 1. boolean calls
	st.count("MatchRunes")
	if b, e := re.MatchRunes(runes); resErr(e) {
		return "", incon, len(chain)
	} else if e != nil || b != found {
		return fmt.Sprintf("MatchRunes(%q) = %v,%v but FindRunesMatch gives %s", s, b, e, obsOf(first)), "", len(chain)
	}
	st.count("MatchString")
	if b, e := re.MatchString(s); resErr(e) {
		return "", incon, len(chain)
	} else if e != nil || b != found {
		return fmt.Sprintf("MatchString(%q) = %v,%v but FindRunesMatch gives %s", s, b, e, obsOf(first)), "", len(chain)
	}

	// 2. string chain with byte ranges
	st.count("FindStringMatch+FindNextMatch")
	sm, e := re.FindStringMatch(s)
	for i := 0; ; i++ {
		if resErr(e) {
			return "", incon, len(chain)
		}
		if e != nil {
			return "string chain error: " + e.Error(), "", len(chain)
		}
		var want *mon.MatchObs
		if i < len(chain) {
			want = chain[i]
		}
		if got := mon.ObsAll(sm); got != obsOf(want) {
			return fmt.Sprintf("match #%d of the FindStringMatch chain on %q is %s, the rune chain has %s", i, s, got, obsOf(want)), "", len(chain)
		}
		if sm == nil {
			break
		}
		for gi, g := range sm.Groups() {
			for ci := range g.Captures {
				c := &g.Captures[ci]
				bi, bl := c.ByteRange()
				if bi != im.Off[c.RuneIndex] || bi+bl != im.Off[c.RuneIndex+c.RuneLength] {
					return fmt.Sprintf("ByteRange of group %d capture %d of match #%d on %q = (%d,%d), the index map gives (%d,%d)", gi, ci, i, s, bi, bl, im.Off[c.RuneIndex], im.Off[c.RuneIndex+c.RuneLength]-im.Off[c.RuneIndex]), "", len(chain)
				}
			}
		}
		sm, e = re.FindNextMatch(sm)
	}

	// 3. StartingAt variants at every byte offset
	st.count("Find*StartingAt")
	boundary := map[int]int{}
	for ri, b := range im.Off {
		boundary[b] = ri
	}
	for b := 0; b <= len(s)+1; b++ {
		sm, se := re.FindStringMatchStartingAt(s, b)
		ri, isB := boundary[b]
		// a byte offset inside an invalid sequence is still where a (one byte) rune starts
		if !isB {
			if se == nil {
				return fmt.Sprintf("FindStringMatchStartingAt(%q, %d): offset is not at the start of a rune (or beyond the end) but no error was returned", s, b), "", len(chain)
			}
			continue
		}
		if resErr(se) {
			return "", incon, len(chain)
		}
		rm, rerr := re.FindRunesMatchStartingAt(runes, ri)
		if resErr(rerr) {
			return "", incon, len(chain)
		}
		if se != nil || rerr != nil {
			return fmt.Sprintf("StartingAt at byte %d / rune %d on %q: errors %v / %v", b, ri, s, se, rerr), "", len(chain)
		}
		if a, c := mon.ObsAll(sm), mon.ObsAll(rm); a != c {
			return fmt.Sprintf("FindStringMatchStartingAt(%q, %d) = %s but FindRunesMatchStartingAt(runes, %d) = %s", s, b, a, ri, c), "", len(chain)
		}
	}

	// 4. find-all index calls
	for _, n := range []int{-1, 0, 1, 2} {
		exp := mon.ExpectAll(chain, n, rtl)
		var wantR, wantB [][]int
		for _, m := range exp {
			wantR = append(wantR, []int{m.Index, m.Index + m.Length})
			wantB = append(wantB, byteSpan(im, m.Index, m.Length))
		}
		st.count("FindAllRunesIndex")
		gotR, e := re.FindAllRunesIndex(runes, n)
		if resErr(e) {
			return "", incon, len(chain)
		}
		if e != nil || !(len(gotR) == 0 && len(wantR) == 0) && !reflect.DeepEqual(gotR, wantR) {
			return fmt.Sprintf("FindAllRunesIndex(%q, %d) = %v,%v but the match chain (minus adjacent empty matches) gives %v", s, n, gotR, e, wantR), "", len(chain)
		}
		st.count("FindAllStringIndex")
		gotB, e := re.FindAllStringIndex(s, n)
		if resErr(e) {
			return "", incon, len(chain)
		}
		if e != nil || !(len(gotB) == 0 && len(wantB) == 0) && !reflect.DeepEqual(gotB, wantB) {
			return fmt.Sprintf("FindAllStringIndex(%q, %d) = %v,%v but the match chain gives %v", s, n, gotB, e, wantB), "", len(chain)
		}
	}

	// 5. compat adapter
	cre := compat.Wrap(re)
	bs := []byte(s)
	var bad string
	cmpv := func(name string, got, want any) {
		st.count("compat." + name)
		if bad == "" && !reflect.DeepEqual(got, want) {
			bad = fmt.Sprintf("compat %s on %q = %#v but the match chain gives %#v", name, s, got, want)
		}
	}
	in, pbad := guardCompat(func() {
		cmpv("Match", cre.Match(bs), found)
		cmpv("MatchString", cre.MatchString(s), found)
		cmpv("MatchReader", cre.MatchReader(strings.NewReader(s)), found)
		var wIdx, wSub []int
		var wStr string
		var wB []byte
		var wSubS []string
		var wSubB [][]byte
		if found {
			wIdx = byteSpan(im, first.Index, first.Length)
			wSub = submatchIndex(im, first)
			wStr = rawText(s, im, first.Index, first.Length)
			wSubS = submatchStrings(s, im, first)
			wB = bs[wIdx[0]:wIdx[1]]
			for i := 0; i < len(wSub); i += 2 {
				if wSub[i] >= 0 {
					wSubB = append(wSubB, bs[wSub[i]:wSub[i+1]])
				} else {
					wSubB = append(wSubB, nil)
				}
			}
		}
		cmpv("FindIndex", cre.FindIndex(bs), wIdx)
		cmpv("FindStringIndex", cre.FindStringIndex(s), wIdx)
		cmpv("FindReaderIndex", cre.FindReaderIndex(strings.NewReader(s)), wIdx)
		cmpv("FindSubmatchIndex", cre.FindSubmatchIndex(bs), wSub)
		cmpv("FindStringSubmatchIndex", cre.FindStringSubmatchIndex(s), wSub)
		cmpv("FindReaderSubmatchIndex", cre.FindReaderSubmatchIndex(strings.NewReader(s)), wSub)
		cmpv("Find", cre.Find(bs), wB)
		cmpv("FindSubmatch", cre.FindSubmatch(bs), wSubB)
		cmpv("FindString", cre.FindString(s), wStr)
		cmpv("FindStringSubmatch", cre.FindStringSubmatch(s), wSubS)
		for _, n := range []int{-1, 0, 1, 2} {
			exp := mon.ExpectAll(chain, n, rtl)
			var wI, wSI [][]int
			var wS []string
			var wSS [][]string
			var wBy [][]byte
			for _, m := range exp {
				sp := byteSpan(im, m.Index, m.Length)
				wI = append(wI, sp)
				wSI = append(wSI, submatchIndex(im, m))
				wS = append(wS, rawText(s, im, m.Index, m.Length))
				wSS = append(wSS, submatchStrings(s, im, m))
				wBy = append(wBy, bs[sp[0]:sp[1]])
			}
			tag := fmt.Sprintf("(n=%d)", n)
			cmpv("FindAllIndex"+tag, normPairs(cre.FindAllIndex(bs, n)), normPairs(wI))
			cmpv("FindAllStringIndex"+tag, normPairs(cre.FindAllStringIndex(s, n)), normPairs(wI))
			cmpv("FindAllStringSubmatchIndex"+tag, normPairs(cre.FindAllStringSubmatchIndex(s, n)), normPairs(wSI))
			cmpv("FindAllSubmatchIndex"+tag, normPairs(cre.FindAllSubmatchIndex(bs, n)), normPairs(wSI))
			cmpv("FindAll"+tag, len(cre.FindAll(bs, n)), len(wBy))
			cmpv("FindAllString"+tag, fmt.Sprintf("%q", cre.FindAllString(s, n)), fmt.Sprintf("%q", wS))
			cmpv("FindAllStringSubmatch"+tag, fmt.Sprintf("%q", cre.FindAllStringSubmatch(s, n)), fmt.Sprintf("%q", wSS))
			cmpv("FindAllSubmatch"+tag, len(cre.FindAllSubmatch(bs, n)), len(wSS))
		}
	})
	if in {
		return "", "compat-resource-error", len(chain)
	}
	if pbad != "" {
		return pbad, "", len(chain)
	}
	if bad != "" {
		return bad, "", len(chain)
	}

	// 6. the enumeration inside ReplaceFunc
	st.count("ReplaceFunc-enumeration")
	var seen []string
	_, e = re.ReplaceFunc(s, func(m regexp2.Match) string {
		seen = append(seen, mon.ObsAll(&m))
		return ""
	}, -1, -1)
	if resErr(e) {
		return "", incon, len(chain)
	}
	var want []string
	for _, m := range chain {
		want = append(want, m.Text)
	}
	if e != nil || fmt.Sprint(seen) != fmt.Sprint(want) {
		return fmt.Sprintf("ReplaceFunc on %q handed the evaluator %v (err %v), the match chain is %v", s, seen, e, want), "", len(chain)
	}

	// 7. the enumeration inside pattern Replace (sentinels read the boundaries and last captures back)
	if valid && !strings.ContainsAny(s, sentOpen+sentClose+sentSep) {
		st.count("Replace-enumeration")
		nums := re.GetGroupNumbers()
		repl := sentOpen
		for _, g := range nums {
			repl += fmt.Sprintf("${%d}"+sentSep, g)
		}
		repl += sentClose
		got, e := re.Replace(s, repl, -1, -1)
		if resErr(e) {
			return "", incon, len(chain)
		}
		var sb strings.Builder
		ordered := chain
		if rtl {
			ordered = make([]*mon.MatchObs, len(chain))
			for i, m := range chain {
				ordered[len(chain)-1-i] = m
			}
		}
		prev := 0
		for _, m := range ordered {
			sb.WriteString(string(runes[prev:m.Index]))
			sb.WriteString(sentOpen)
			for gi := range nums {
				if gi < len(m.Groups) && len(m.Groups[gi]) > 0 {
					last := m.Groups[gi][len(m.Groups[gi])-1]
					sb.WriteString(string(runes[last.Index : last.Index+last.Length]))
				}
				sb.WriteString(sentSep)
			}
			sb.WriteString(sentClose)
			prev = m.Index + m.Length
		}
		sb.WriteString(string(runes[prev:]))
		if e != nil || got != sb.String() {
			return fmt.Sprintf("Replace(%q, %q) = %q (err %v) but substituting along the match chain gives %q", s, repl, got, e, sb.String()), "", len(chain)
		}
	}

	// 8. the enumeration inside Split
	if valid {
		st.count("Split-enumeration")
		got, e := re.Split(s, -1)
		if resErr(e) {
			return "", incon, len(chain)
		}
		ordered := chain
		if rtl {
			ordered = make([]*mon.MatchObs, len(chain))
			for i, m := range chain {
				ordered[len(chain)-1-i] = m
			}
		}
		var want []string
		prev := 0
		for _, m := range ordered {
			want = append(want, string(runes[prev:m.Index]))
			for gi := 1; gi < len(m.Groups); gi++ {
				t := ""
				if len(m.Groups[gi]) > 0 {
					last := m.Groups[gi][len(m.Groups[gi])-1]
					t = string(runes[last.Index : last.Index+last.Length])
				}
				want = append(want, t)
			}
			prev = m.Index + m.Length
		}
		want = append(want, string(runes[prev:]))
		if len(chain) == 0 {
			want = []string{s}
		}
		if e != nil || !reflect.DeepEqual(got, want) {
			return fmt.Sprintf("Split(%q) = %q (err %v) but the match chain gives %q", s, got, e, want), "", len(chain)
		}
	}
	return "", "", len(chain)
}

// private-use sentinels used to read match boundaries back out of Replace
const (
	sentOpen  = "\ue000"
	sentClose = "\ue001"
	sentSep   = "\ue002"
)

func normPairs(p [][]int) string {
	if len(p) == 0 {
		return "[]"
	}
	return fmt.Sprint(p)
}

func replayC02(w core.Witness) string {
	re, err := mon.Compile(w.Pattern, w.Options, w.COpts)
	if err != nil {
		return ""
	}
	s := w.Input
	if w.InputHex != "" {
		s = unhex(w.InputHex)
	}
	d, _, _ := entryPoints(re, s, epStats{count: func(string) {}})
	return d
}

func unhex(h string) string {
	var b []byte
	for i := 0; i+1 < len(h); i += 2 {
		var v byte
		fmt.Sscanf(h[i:i+2], "%02x", &v)
		b = append(b, v)
	}
	return string(b)
}

// corrupt injects invalid UTF-8 into s.
func corrupt(s string, rng *rand.Rand) string {
	b := []byte(s)
	// every class of malformed sequence: stray continuation and impossible bytes, lead bytes of each
	// width alone and cut short (0xEF 0xBF is the head of U+FFFD itself), overlong forms, surrogates,
	// beyond U+10FFFF - and a well-formed U+FFFD, which must keep its three bytes
	bad := [][]byte{{0xff}, {0xc0}, {0xe2, 0x82}, {0xf0, 0x9f}, {0x80}, {0xed, 0xa0, 0x80},
		{0xef}, {0xef, 0xbf}, {0xe0}, {0xe0, 0xa0}, {0xf4, 0x90}, {0xc1, 0x81}, {0xf8}, {0xfe}, {0xed, 0xbf, 0xbf},
		{0xef, 0xbf, 0xbd}, {0xf0, 0x9f, 0x98}, {0xc3}, {0xdf}, {0xf4}, {0xe0, 0x80, 0x80}}
	for k := 1 + rng.Intn(2); k > 0; k-- {
		i := rng.Intn(len(b) + 1)
		x := bad[rng.Intn(len(bad))]
		b = append(b[:i], append(append([]byte(nil), x...), b[i:]...)...)
	}
	return string(b)
}

func runC02(r *core.Run) int {
	r.ReplayKnown(replayC02)
	nPat := r.Pick(5000, 80000)
	nDirected := r.Pick(14, 30)
	base := rand.New(rand.NewSource(r.Seed*86028121 + 2)).Int63()
	r.Parallel(nPat, func(i int, l *core.Local) {
		rng := rand.New(rand.NewSource(base + int64(i)*1000003))
		pc := makePattern(i, rng, [3]int{1, 3, 2}, 12)
		noteCtx(l, pc)
		if pc == nil {
			return
		}
		copts := []int{0, 0, mon.COCodeGen, mon.CONoASCIIBitmap, mon.COCodeGen | mon.CONoASCIIBitmap}[rng.Intn(5)]
		if !r.ClaimPattern(fmt.Sprintf("%d/%d/%s", pc.opts, copts, pc.src)) {
			return
		}
		re, err := mon.Compile(pc.src, pc.opts, copts)
		if err != nil {
			l.Count("compile_rejected", 1)
			return
		}
		re.MatchTimeout = shortTimeout
		l.Count("patterns", 1)
		l.Count("origin_"+pc.origin[:3], 1)
		st := epStats{count: func(k string) { l.Count("ep_"+k, 1) }}
		var nontriv int64
		timeouts := 0
		inputs := inputsFor(pc, rng, 2, nDirected)
		for k, runes := range inputs {
			if r.Stopped() {
				return
			}
			if !validRunes(runes) {
				continue
			}
			s := string(runes)
			if k%4 == 3 {
				s = corrupt(s, rng)
				l.Count("inputs_with_invalid_utf8", 1)
			}
			detail, incon, chainLen := entryPoints(re, s, st)
			l.Eval(1)
			if incon != "" {
				l.Inconclusive(incon)
				timeouts++
				if timeouts >= 3 {
					break
				}
				continue
			}
			if chainLen > 0 {
				nontriv++
				if nontriv == 1 {
					l.Sample(map[string]any{"pattern": pc.src, "options": pc.opts, "copts": copts, "input": s, "matches_in_chain": chainLen})
				}
			}
			if detail != "" {
				w := witnessOf(pc, nil, 0)
				w.COpts = copts
				w.Input = s
				if !utf8.ValidString(s) {
					w.Input = ""
					w.InputHex = fmt.Sprintf("%x", s)
				} else if pc.pat != nil {
					spc, sr, _ := shrinkCase(pc, []rune(s), 0, func(src string, in []rune, _ int) bool {
						re2, err := mon.Compile(src, pc.opts, copts)
						if err != nil {
							return false
						}
						re2.MatchTimeout = shortTimeout
						d, _, _ := entryPoints(re2, string(in), epStats{count: func(string) {}})
						return d != ""
					})
					w2 := witnessOf(spc, nil, 0)
					w2.COpts = copts
					w2.Input = string(sr)
					w2.Args["original_pattern"] = pc.src
					if d2 := replayC02(w2); d2 != "" {
						w, detail = w2, d2
					}
				}
				l.Violate(core.Violation{Kind: "entry-points-disagree", Detail: detail, Witness: w})
				return
			}
		}
		l.NontrivialN(nontriv)
	})
	r.Extras["bounds"] = map[string]any{"patterns": nPat, "exhaustive_len": 2, "directed_inputs_per_pattern": nDirected, "invalid_utf8_share": "1/4 of inputs"}
	return r.Finish(
		"random full-syntax ASTs, shape templates and harvested corpus patterns under random regex options (incl. RightToLeft/ECMAScript/RE2) and compile options; per pattern bounded-exhaustive and directed inputs, a quarter of them with injected invalid UTF-8; evaluation = one (pattern,input) for which ~60 observations (bool calls, string chain with ByteRange, StartingAt at every byte offset incl. argument errors, find-all with n in {-1,0,1,2}, all compat.Regexp methods, the enumerations inside ReplaceFunc, Replace and Split) are compared with the FindRunesMatch+FindNextMatch chain; non-trivial = distinct (pattern,input) whose chain has at least one match",
		[]string{"the rune-API chain is the canonical observation (its own correctness is C01/C03/C07)"},
		map[string]int64{"evaluations": 20000, "distinct_nontrivial": 5000, "ep_compat.FindAllStringSubmatchIndex(n=-1)": 5000, "ep_Split-enumeration": 3000})
}
