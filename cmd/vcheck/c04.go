package main

import (
	"fmt"
	"math/rand"
	"strings"
	"unicode"
	"unicode/utf8"

	regexp2 "github.com/dlclark/regexp2/v2"
	"github.com/dlclark/regexp2/v2/syntax"

	"verif/internal/core"
	"verif/internal/mon"
	"verif/internal/ref"
)

// C04: every published compile-time fact is checked at every position at which
// a single-position attempt of the compiled program succeeds.

func init() {
	register("C04", runC04, replayC04)
}

type facts struct {
	fo   *syntax.FindOptimizations
	code *syntax.Code
	rtl  bool
	opts int
	// the literal the tree guarantees at the start of every match (RegexNode.FindStartingLiteral, a
	// fact for code generators), and what is wrong with facts that do not depend on a text
	startLit *syntax.StartingLiteral
	static   []string
}

// classAnalysisHolds compares what CharSet.Analyze claims about a set with the set's own membership test.
func classAnalysisHolds(set *syntax.CharSet) string {
	a := set.Analyze()
	if !a.OnlyRanges {
		return ""
	}
	probe := []rune{0, 1, 'A', 'a', '0', 0x7E, 0x7F, 0x80, 0x81, 0xFF, 0x100, 0x7FF, 0x800, 0xFFFD, 0xFFFF, 0x10000, 0x10FFFF,
		a.LowerBoundInclusiveIfOnlyRanges, a.LowerBoundInclusiveIfOnlyRanges - 1, a.UpperBoundExclusiveIfOnlyRanges, a.UpperBoundExclusiveIfOnlyRanges - 1}
	for r := rune(0); r < 0x80; r++ {
		probe = append(probe, r)
	}
	for _, r := range probe {
		if r < 0 || r > 0x10FFFF {
			continue
		}
		in := set.CharIn(r)
		ascii := r < 0x80
		switch {
		case a.ContainsOnlyAscii && in && !ascii:
			return fmt.Sprintf("Analyze(%v).ContainsOnlyAscii but U+%04X is in the set", set.String(), r)
		case a.ContainsNoAscii && in && ascii:
			return fmt.Sprintf("Analyze(%v).ContainsNoAscii but U+%04X is in the set", set.String(), r)
		case a.AllAsciiContained && !in && ascii:
			return fmt.Sprintf("Analyze(%v).AllAsciiContained but U+%04X is not in the set", set.String(), r)
		case a.AllNonAsciiContained && !in && !ascii:
			return fmt.Sprintf("Analyze(%v).AllNonAsciiContained but U+%04X is not in the set", set.String(), r)
		}
		if !set.IsNegated() && in && (r < a.LowerBoundInclusiveIfOnlyRanges || r >= a.UpperBoundExclusiveIfOnlyRanges) {
			return fmt.Sprintf("Analyze(%v) bounds [U+%04X, U+%04X) but U+%04X is in the set", set.String(), a.LowerBoundInclusiveIfOnlyRanges, a.UpperBoundExclusiveIfOnlyRanges, r)
		}
	}
	return ""
}

func staticFacts(tree *syntax.RegexTree, fo *syntax.FindOptimizations) []string {
	var bad []string
	var walk func(n *syntax.RegexNode)
	walk = func(n *syntax.RegexNode) {
		if n.Set != nil && len(bad) == 0 {
			if d := classAnalysisHolds(n.Set); d != "" {
				bad = append(bad, d)
			}
		}
		for _, c := range n.Children {
			walk(c)
		}
	}
	walk(tree.Root)
	if fo != nil {
		if l := fo.LiteralAfterLoop; l != nil && l.LoopNode != nil && l.LoopNode.Set != nil {
			first := l.Char
			if l.String != "" {
				first, _ = utf8.DecodeRuneInString(l.String)
			}
			if (l.String != "" || len(l.Chars) == 0) && !l.StringIgnoreCase && l.LoopNode.Set.CharIn(first) {
				bad = append(bad, fmt.Sprintf("LiteralAfterLoop (string %q char %q) starts with a rune that the loop's set %v contains: the literal must not be able to start inside the loop", l.String, l.Char, l.LoopNode.Set.String()))
			}
		}
	}
	return bad
}

func factsOf(src string, opts, copts int) (*facts, error) {
	tree, err := mon.ParseLocked(src, syntax.ParseOptions{RegexOptions: syntax.RegexOptions(opts), CodeGen: copts&mon.COCodeGen != 0})
	if err != nil {
		return nil, err
	}
	fo := tree.FindOptimizations
	code, err := syntax.Write(tree)
	if err != nil {
		return nil, err
	}
	f := &facts{fo: fo, code: code, rtl: opts&int(regexp2.RightToLeft) != 0, opts: opts}
	if !f.rtl {
		f.startLit = tree.Root.FindStartingLiteral()
	}
	f.static = staticFacts(tree, fo)
	return f, nil
}

func foldEq(a, b rune) bool {
	return a == b || unicode.ToLower(a) == unicode.ToLower(b) || ref.SameFold(a, b)
}

// bytePrefixAt reports whether the UTF-8 text from p starts with pre byte-wise. It was once
// accepted as an alternative reading of a published prefix that ended inside a multi-byte rune
// ("é\xc3" for éß|ééß) - that acceptance hid defect D51 (the same computation published a
// half rune as the literal after a loop and lost matches). A published prefix must be valid
// UTF-8 and hold rune-wise; the byte-wise reading only explains the message now.
func bytePrefixAt(text []rune, p int, pre string) bool {
	return p >= 0 && p <= len(text) && strings.HasPrefix(string(text[p:]), pre)
}

func hasPrefixAt(text []rune, p int, pre []rune, ic bool) bool {
	if p < 0 || p+len(pre) > len(text) {
		return false
	}
	for i, c := range pre {
		if text[p+i] != c && !(ic && foldEq(text[p+i], c)) {
			return false
		}
	}
	return true
}

func anchorHolds(t syntax.NodeType, text []rune, p, origin int, strictEnd bool) (bool, bool) {
	n := len(text)
	switch t {
	case syntax.NtBeginning:
		return p == 0, true
	case syntax.NtStart:
		return p == origin, true
	case syntax.NtEnd:
		return p == n, true
	case syntax.NtEndZ:
		if strictEnd {
			return p == n, true
		}
		return p == n || (p == n-1 && text[p] == '\n'), true
	case syntax.NtBol:
		return p == 0 || text[p-1] == '\n', true
	case syntax.NtEol:
		return p == n || text[p] == '\n', true
	}
	return true, false
}

func isWordAt(text []rune, i int, ecma bool) bool {
	if i < 0 || i >= len(text) {
		return false
	}
	if ecma {
		return syntax.IsECMAWordChar(text[i])
	}
	return ref.IsWord(text[i])
}

// landmarkChainHolds is a weak (sound) predicate: the landmarks occur in order at
// or after p, each core after the previous one (whitespace requirements ignored).
func landmarkChainHolds(ch *syntax.RequiredLandmarkChain, text []rune, p int) bool {
	cur := p
	for _, lm := range ch.Landmarks {
		found := -1
		adv := 0
		for q := cur; q <= len(text) && found < 0; q++ {
			for _, alt := range lm.Alternatives {
				if len(alt.Literal) > 0 {
					if hasPrefixAt(text, q, alt.Literal, false) {
						found, adv = q, len(alt.Literal)
						break
					}
				} else if alt.Set != nil {
					k := 0
					for q+k < len(text) && alt.Set.CharIn(text[q+k]) {
						k++
					}
					mn := alt.MinRepeat
					if mn < 1 {
						mn = 1
					}
					if k >= mn {
						found, adv = q, mn
						break
					}
				}
			}
		}
		if found < 0 {
			return false
		}
		// the occurrence found is the leftmost of any alternative, not necessarily the one the match
		// uses: the next landmark is only known to begin behind its first rune (the engine's reading
		// since fix D46; demanding it behind the whole alternative was defect D46)
		_ = adv
		cur = found + 1
	}
	return true
}

// checkFacts evaluates every published fact at attempt position p where the
// match (idx,length) was found with \G origin `origin`. It returns violated
// facts and calls seen(kind) for each fact kind evaluated.
func (f *facts) check(text []rune, p, idx, length, origin int, seen func(string)) []string {
	var bad []string
	fail := func(format string, a ...any) { bad = append(bad, fmt.Sprintf(format, a...)) }
	n := len(text)
	fo := f.fo
	strictEnd := f.opts&int(regexp2.RE2|regexp2.ECMAScript) != 0
	ecma := f.opts&int(regexp2.ECMAScript) != 0
	end := idx + length
	bad = append(bad, f.static...)
	seen("static: class analyses, literal-after-loop contract")
	if sl := f.startLit; sl != nil && !f.rtl {
		seen("StartingLiteral")
		switch {
		case len(sl.String) > 0:
			if !hasPrefixAt(text, p, sl.String, false) {
				fail("FindStartingLiteral = string %q but the match at %d does not start with it", string(sl.String), p)
			}
		case p >= n:
			fail("FindStartingLiteral promises a first rune but a match starts at the end of the text (%d)", p)
		case len(sl.SetChars) > 0:
			in := false
			for _, c := range sl.SetChars {
				in = in || c == text[p]
			}
			if in == sl.Negated {
				fail("FindStartingLiteral = set %q negated=%v but the match at %d starts with %q", string(sl.SetChars), sl.Negated, p, text[p])
			}
		default:
			if in := text[p] >= sl.Range.First && text[p] <= sl.Range.Last; in == sl.Negated {
				fail("FindStartingLiteral = range U+%04X-U+%04X negated=%v but the match at %d starts with %q", sl.Range.First, sl.Range.Last, sl.Negated, p, text[p])
			}
		}
	}
	if fo != nil {
		seen("MinRequiredLength")
		if f.rtl {
			if p < fo.MinRequiredLength {
				fail("MinRequiredLength=%d but a match starts (right-to-left) at %d", fo.MinRequiredLength, p)
			}
		} else if n-p < fo.MinRequiredLength {
			fail("MinRequiredLength=%d but a match starts at %d with only %d runes left", fo.MinRequiredLength, p, n-p)
		}
		if fo.MaxPossibleLength >= 0 {
			seen("MaxPossibleLength")
			if length > fo.MaxPossibleLength {
				fail("MaxPossibleLength=%d but a match of length %d exists", fo.MaxPossibleLength, length)
			}
		}
		if ok, known := anchorHolds(fo.LeadingAnchor, text, p, origin, strictEnd); known {
			seen("LeadingAnchor")
			if !ok {
				fail("LeadingAnchor=%v does not hold at match start %d", fo.LeadingAnchor, p)
			}
		}
		if !f.rtl {
			if ok, known := anchorHolds(fo.TrailingAnchor, text, end, origin, strictEnd); known && fo.TrailingAnchor != syntax.NtBol && fo.TrailingAnchor != syntax.NtBeginning && fo.TrailingAnchor != syntax.NtStart {
				seen("TrailingAnchor")
				if !ok {
					fail("TrailingAnchor=%v does not hold at match end %d", fo.TrailingAnchor, end)
				}
			}
		}
		if fo.LeadingPrefix != "" {
			seen("LeadingPrefix")
			pre := []rune(fo.LeadingPrefix)
			ic := fo.FindMode == syntax.LeadingString_OrdinalIgnoreCase_LeftToRight
			if f.rtl {
				if !hasPrefixAt(text, p-len(pre), pre, ic) {
					fail("LeadingPrefix=%q but the text before (right-to-left) match start %d does not end with it", fo.LeadingPrefix, p)
				}
			} else if !utf8.ValidString(fo.LeadingPrefix) {
				fail("LeadingPrefix=%q is not valid UTF-8 (it ends inside a rune; byte-wise it holds at %d: %v)", fo.LeadingPrefix, p, bytePrefixAt(text, p, fo.LeadingPrefix))
			} else if !hasPrefixAt(text, p, pre, ic) {
				fail("LeadingPrefix=%q (ignoreCase=%v) but the text at match start %d does not start with it", fo.LeadingPrefix, ic, p)
			}
		}
		if len(fo.LeadingPrefixes) > 0 {
			seen("LeadingPrefixes")
			ic := fo.FindMode == syntax.LeadingStrings_OrdinalIgnoreCase_LeftToRight
			ok := false
			for _, s := range fo.LeadingPrefixes {
				if utf8.ValidString(s) && hasPrefixAt(text, p, []rune(s), ic) {
					ok = true
					break
				}
			}
			if !ok {
				fail("LeadingPrefixes=%q (ignoreCase=%v) but none starts the text at match start %d", fo.LeadingPrefixes, ic, p)
			}
		}
		switch fo.FindMode {
		case syntax.FixedDistanceChar_LeftToRight:
			seen("FixedDistanceChar")
			q := p + fo.FixedDistanceLiteral.Distance
			if q >= n || text[q] != fo.FixedDistanceLiteral.C {
				fail("FixedDistanceLiteral char %q at distance %d does not hold for the match at %d", fo.FixedDistanceLiteral.C, fo.FixedDistanceLiteral.Distance, p)
			}
		case syntax.FixedDistanceString_LeftToRight:
			seen("FixedDistanceString")
			if !hasPrefixAt(text, p+fo.FixedDistanceLiteral.Distance, []rune(fo.FixedDistanceLiteral.S), false) {
				fail("FixedDistanceLiteral string %q at distance %d does not hold for the match at %d", fo.FixedDistanceLiteral.S, fo.FixedDistanceLiteral.Distance, p)
			}
		case syntax.LeadingChar_RightToLeft:
			seen("LeadingChar_RightToLeft")
			if p-1 < 0 || text[p-1] != fo.FixedDistanceLiteral.C {
				fail("LeadingChar_RightToLeft %q does not precede the match start %d", fo.FixedDistanceLiteral.C, p)
			}
		}
		for _, s := range fo.FixedDistanceSets {
			seen("FixedDistanceSets")
			q := p + s.Distance
			if f.rtl {
				q = p - 1 - s.Distance
			}
			if q < 0 || q >= n {
				fail("FixedDistanceSet at distance %d lies outside the text for the match at %d", s.Distance, p)
				continue
			}
			c := text[q]
			if s.Set != nil && !s.Set.CharIn(c) {
				fail("FixedDistanceSet %v at distance %d does not contain %q (match at %d)", s.Set.String(), s.Distance, c, p)
			}
			if len(s.Chars) > 0 {
				in := false
				for _, x := range s.Chars {
					if x == c {
						in = true
					}
				}
				if in == s.Negated {
					fail("FixedDistanceSet chars %q negated=%v at distance %d do not admit %q (match at %d)", string(s.Chars), s.Negated, s.Distance, c, p)
				}
			} else if s.Range != nil {
				in := c >= s.Range.First && c <= s.Range.Last
				if in == s.Negated {
					fail("FixedDistanceSet range %q-%q negated=%v at distance %d does not admit %q (match at %d)", s.Range.First, s.Range.Last, s.Negated, s.Distance, c, p)
				}
			}
		}
		if l := fo.LiteralAfterLoop; l != nil && l.LoopNode != nil && l.LoopNode.Set != nil {
			seen("LiteralAfterLoop")
			ok := false
			for q := p; q <= n; q++ {
				switch {
				case l.String != "":
					if hasPrefixAt(text, q, []rune(l.String), l.StringIgnoreCase) {
						ok = true
					}
				case len(l.Chars) > 0:
					if q < n && strings.ContainsRune(string(l.Chars), text[q]) {
						ok = true
					}
				default:
					if q < n && text[q] == l.Char {
						ok = true
					}
				}
				if ok || q == n || !l.LoopNode.Set.CharIn(text[q]) {
					break
				}
			}
			if !ok {
				fail("LiteralAfterLoop (string %q chars %q char %q after loop %v) is not present after the match start %d", l.String, string(l.Chars), l.Char, l.LoopNode.Set.String(), p)
			}
		}
		if fo.LandmarkChain != nil {
			seen("LandmarkChain")
			if !landmarkChainHolds(fo.LandmarkChain, text, p) {
				fail("LandmarkChain: the required landmarks do not occur in order after the match start %d", p)
			}
		}
	}
	if c := f.code; c != nil {
		if c.Anchors != 0 {
			seen("Code.Anchors")
			type ab struct {
				bit syntax.AnchorLoc
				t   syntax.NodeType
			}
			for _, a := range []ab{{syntax.AnchorBeginning, syntax.NtBeginning}, {syntax.AnchorStart, syntax.NtStart}, {syntax.AnchorEnd, syntax.NtEnd},
				{syntax.AnchorEndZ, syntax.NtEndZ}, {syntax.AnchorBol, syntax.NtBol}, {syntax.AnchorEol, syntax.NtEol}} {
				if c.Anchors&a.bit != 0 {
					if ok, _ := anchorHolds(a.t, text, p, origin, strictEnd); !ok {
						fail("Code.Anchors has %v but it does not hold at match start %d", a.t, p)
					}
				}
			}
			if c.Anchors&syntax.AnchorBoundary != 0 && isWordAt(text, p-1, false) == isWordAt(text, p, false) {
				fail("Code.Anchors has Boundary but %d is not a word boundary", p)
			}
			if c.Anchors&syntax.AnchorECMABoundary != 0 && isWordAt(text, p-1, ecma) == isWordAt(text, p, ecma) {
				fail("Code.Anchors has ECMABoundary but %d is not a word boundary", p)
			}
		}
		if c.FcPrefix != nil {
			seen("FcPrefix")
			q := p
			if f.rtl {
				q = p - 1
			}
			if q < 0 || q >= n {
				fail("FcPrefix exists but a match starts at %d with no rune to consume", p)
			} else {
				ch := text[q]
				if c.FcPrefix.CaseInsensitive {
					ch = unicode.ToLower(ch)
				}
				if !c.FcPrefix.PrefixSet.CharIn(ch) {
					fail("FcPrefix set %v does not contain the first rune %q of the match at %d", c.FcPrefix.PrefixSet.String(), text[q], p)
				}
			}
		}
		if c.BmPrefix != nil {
			seen("BmPrefix")
			if !c.BmPrefix.IsMatch(text, p, 0, n) {
				fail("BmPrefix %q does not match the text at match start %d", c.BmPrefix.String(), p)
			}
		}
	}
	return bad
}

// factCase runs all attempt positions of one input; returns violations.
func factCase(re *regexp2.Regexp, f *facts, text []rune, seen func(string)) (bad []string, p0 int, matches int, incon string) {
	for p := 0; p <= len(text); p++ {
		for _, origin := range []int{p, 0} {
			if origin == 0 && p == 0 {
				continue
			}
			if f.rtl && origin == 0 {
				origin = len(text)
				if p == len(text) {
					continue
				}
			}
			m, err := re.VerifAttemptAt(text, p, origin)
			if err != nil {
				if mon.ResourceErr(err) {
					return nil, p, matches, "attempt-" + mon.ErrClass(err)
				}
				return []string{"VerifAttemptAt returned an error: " + err.Error()}, p, matches, ""
			}
			if m == nil {
				continue
			}
			matches++
			if b := f.check(text, p, m.RuneIndex, m.RuneLength, origin, seen); len(b) > 0 {
				return b, p, matches, ""
			}
		}
	}
	return nil, 0, matches, ""
}

func replayC04(w core.Witness) string {
	re, err := mon.Compile(w.Pattern, w.Options, w.COpts)
	if err != nil {
		return ""
	}
	f, err := factsOf(w.Pattern, w.Options, w.COpts)
	if err != nil {
		return ""
	}
	bad, _, _, _ := factCase(re, f, witnessRunes(w), func(string) {})
	return strings.Join(bad, "; ")
}

func runC04(r *core.Run) int {
	r.ReplayKnown(replayC04)
	nPat := r.Pick(30000, 400000)
	exhLen := r.Pick(5, 6)
	nDirected := r.Pick(25, 60)
	base := rand.New(rand.NewSource(r.Seed*32452843 + 4)).Int63()
	r.Parallel(nPat, func(i int, l *core.Local) {
		rng := rand.New(rand.NewSource(base + int64(i)*1000003))
		pc := makePattern(i, rng, [3]int{3, 2, 1}, 10)
		noteCtx(l, pc)
		if pc == nil {
			return
		}
		copts := []int{0, mon.COCodeGen}[rng.Intn(2)]
		if !r.ClaimPattern(fmt.Sprintf("%d/%d/%s", pc.opts, copts, pc.src)) {
			return
		}
		re, err := mon.Compile(pc.src, pc.opts, copts)
		if err != nil {
			l.Count("compile_rejected", 1)
			return
		}
		re.MatchTimeout = shortTimeout
		f, err := factsOf(pc.src, pc.opts, copts)
		if err != nil {
			return
		}
		l.Count("patterns", 1)
		if f.fo != nil {
			l.Count(fmt.Sprintf("find_mode_%v", f.fo.FindMode), 1)
		}
		seen := func(kind string) { l.Count("fact_"+kind, 1) }
		var nontriv int64
		timeouts := 0
		el := exhLen
		if pc.pat == nil {
			el = 0
		}
		for _, text := range inputsFor(pc, rng, el, nDirected) {
			if r.Stopped() {
				return
			}
			bad, p, matches, incon := factCase(re, f, text, seen)
			l.Eval(int64(len(text) + 1))
			if incon != "" {
				l.Inconclusive(incon)
				timeouts++
				if timeouts >= 3 {
					break
				}
				continue
			}
			if matches > 0 {
				nontriv++
				if nontriv == 1 {
					l.Sample(map[string]any{"pattern": pc.src, "options": pc.opts, "copts": copts, "input": string(text), "positions_with_a_match": matches})
				}
			}
			if len(bad) > 0 {
				spc, st, _ := shrinkCase(pc, text, p, func(src string, in []rune, _ int) bool {
					re2, err := mon.Compile(src, pc.opts, copts)
					if err != nil {
						return false
					}
					re2.MatchTimeout = shortTimeout
					f2, err := factsOf(src, pc.opts, copts)
					if err != nil {
						return false
					}
					b, _, _, _ := factCase(re2, f2, in, func(string) {})
					return len(b) > 0
				})
				w := witnessOf(spc, st, 0)
				w.COpts = copts
				w.Args["original_pattern"] = pc.src
				d := replayC04(w)
				if d == "" {
					w = witnessOf(pc, text, 0)
					w.COpts = copts
					d = strings.Join(bad, "; ")
				}
				l.Violate(core.Violation{Kind: "published-fact-false-at-a-match", Detail: d, Witness: w})
				return
			}
		}
		l.NontrivialN(nontriv)
	})
	r.Extras["bounds"] = map[string]any{"patterns": nPat, "exhaustive_len": exhLen, "exhaustive_alphabet": "<=3 pattern-derived symbols", "directed_inputs_per_pattern": nDirected}
	return r.Finish(
		"patterns from fact-shaped templates, random full-syntax ASTs and the harvested corpus (code-gen analysis on/off, both directions); per pattern every string up to the length bound over <=3 pattern-derived symbols plus pattern-directed strings; at every position where VerifAttemptAt succeeds (with \\G bound to that position and to the scan origin) every published fact is evaluated; evaluation = one attempt position; non-trivial = distinct (pattern,input) with at least one matching position; counters fact_* = number of match instances at which each fact kind was evaluated",
		[]string{"fact predicates are written from the comments that define the facts and from how the runner consumes them", "the landmark-chain predicate ignores the whitespace requirements (weaker, still sound)", "BmPrefix is judged by its own IsMatch (pattern + case rule)"},
		map[string]int64{"evaluations": 50000, "distinct_nontrivial": 2000, "fact_MinRequiredLength": 1000, "fact_LeadingPrefix": 50, "fact_FixedDistanceSets": 50, "fact_FcPrefix": 50, "fact_BmPrefix": 50, "fact_LeadingAnchor": 20, "fact_TrailingAnchor": 20, "fact_Code.Anchors": 20})
}
