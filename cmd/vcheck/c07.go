package main

import (
	"fmt"
	"math/rand"
	"reflect"

	regexp2 "github.com/dlclark/regexp2/v2"
	"github.com/dlclark/regexp2/v2/compat"

	"verif/internal/core"
	"verif/internal/gen"
	"verif/internal/mon"
)

// C07: iteration laws of FindNextMatch and the find-all calls.

func init() {
	register("C07", runC07, replayC07)
}

// iterationLaws judges one (regexp, input).
func iterationLaws(re *regexp2.Regexp, runes []rune, st func(string)) (detail, incon string, chainLen int, zeroWidth int) {
	rtl := re.RightToLeft()
	n := len(runes)
	chain, err, runaway := mon.Chain(re, runes)
	if err != nil {
		if mon.ResourceErr(err) {
			return "", "chain-" + mon.ErrClass(err), 0, 0
		}
		return "iteration returned an error: " + err.Error(), "", 0, 0
	}
	if runaway || len(chain) > n+1 {
		return fmt.Sprintf("iteration over %q yields more than len+1 = %d matches (does not terminate?)", string(runes), n+1), "", len(chain), 0
	}
	// ordering, disjointness, no repeated empty match
	for i := 1; i < len(chain); i++ {
		p, c := chain[i-1], chain[i]
		st("order")
		if !rtl {
			if c.Index < p.Index+p.Length {
				return fmt.Sprintf("match #%d (%d,%d) on %q starts before the end of match #%d (%d,%d)", i, c.Index, c.Length, string(runes), i-1, p.Index, p.Length), "", len(chain), 0
			}
		} else if c.Index+c.Length > p.Index {
			return fmt.Sprintf("right-to-left match #%d (%d,%d) on %q ends after the start of match #%d (%d,%d)", i, c.Index, c.Length, string(runes), i-1, p.Index, p.Length), "", len(chain), 0
		}
		if c.Length == 0 && p.Length == 0 && c.Index == p.Index {
			return fmt.Sprintf("the empty match at %d on %q is returned twice", c.Index, string(runes)), "", len(chain), 0
		}
	}
	for _, m := range chain {
		if m.Length == 0 {
			zeroWidth++
		}
	}
	// each match is an independent search from the previous end
	start := 0
	if rtl {
		start = n
	}
	origin := start
	done := false
	for i := 0; i <= len(chain); i++ {
		var want string
		if done {
			want = "nil"
		} else {
			st("recompute-next")
			nm, err := re.VerifNaiveFind(runes, start, origin)
			if err != nil {
				if mon.ResourceErr(err) {
					return "", "naive-" + mon.ErrClass(err), len(chain), zeroWidth
				}
				return "naive scan error: " + err.Error(), "", len(chain), zeroWidth
			}
			want = mon.ObsAll(nm)
		}
		got := "nil"
		if i < len(chain) {
			got = chain[i].Text
		}
		if got != want {
			return fmt.Sprintf("match #%d of the iteration over %q is %s, an independent search from %d with \\G at %d gives %s", i, string(runes), got, start, origin, want), "", len(chain), zeroWidth
		}
		if i == len(chain) {
			break
		}
		m := chain[i]
		end := m.Index + m.Length
		if rtl {
			end = m.Index
		}
		origin, start = end, end
		if m.Length == 0 {
			if (!rtl && end == n) || (rtl && end == 0) {
				done = true
			} else if rtl {
				start = end - 1
			} else {
				start = end + 1
			}
		}
	}
	// find-all = chain minus adjacent empties, truncated
	if validRunes(runes) {
		s := string(runes)
		im := mon.NewIndexMap(s)
		cre := compat.Wrap(re)
		for _, k := range []int{-1, 0, 1, 2, 3} {
			exp := mon.ExpectAll(chain, k, rtl)
			var wantR, wantB [][]int
			for _, m := range exp {
				wantR = append(wantR, []int{m.Index, m.Index + m.Length})
				wantB = append(wantB, []int{im.Off[m.Index], im.Off[m.Index+m.Length]})
			}
			st("find-all")
			gotR, e1 := re.FindAllRunesIndex(runes, k)
			gotB, e2 := re.FindAllStringIndex(s, k)
			if e1 != nil || e2 != nil {
				if (e1 == nil || mon.ResourceErr(e1)) && (e2 == nil || mon.ResourceErr(e2)) {
					return "", "findall-resource", len(chain), zeroWidth
				}
				return fmt.Sprintf("find-all errors: %v %v", e1, e2), "", len(chain), zeroWidth
			}
			if normPairs(gotR) != normPairs(wantR) {
				return fmt.Sprintf("FindAllRunesIndex(%q, %d) = %v, the iteration minus adjacent empty matches truncated to n gives %v", s, k, gotR, wantR), "", len(chain), zeroWidth
			}
			if normPairs(gotB) != normPairs(wantB) {
				return fmt.Sprintf("FindAllStringIndex(%q, %d) = %v, expected %v", s, k, gotB, wantB), "", len(chain), zeroWidth
			}
			var cgot [][]int
			var cs []string
			in, bad := guardCompat(func() {
				cgot = cre.FindAllStringIndex(s, k)
				cs = cre.FindAllString(s, k)
			})
			if in {
				return "", "compat-resource", len(chain), zeroWidth
			}
			if bad != "" {
				return bad, "", len(chain), zeroWidth
			}
			var wantS []string
			for _, m := range exp {
				wantS = append(wantS, string(runes[m.Index:m.Index+m.Length]))
			}
			if normPairs(cgot) != normPairs(wantB) || !(len(cs) == 0 && len(wantS) == 0) && !reflect.DeepEqual(cs, wantS) {
				return fmt.Sprintf("compat FindAllStringIndex/FindAllString(%q, %d) = %v / %q, expected %v / %q", s, k, cgot, cs, wantB, wantS), "", len(chain), zeroWidth
			}
		}
	}
	// matches handed to a ReplaceFunc evaluator stay valid after ReplaceFunc has returned and other
	// calls have been made: their text, and the chain continued from them
	if validRunes(runes) && len(chain) > 0 {
		s := string(runes)
		var kept []regexp2.Match
		if _, err := re.ReplaceFunc(s, func(m regexp2.Match) string { kept = append(kept, m); return "" }, -1, -1); err == nil && len(kept) == len(chain) {
			st("kept-evaluator-matches")
			// other calls of the same size in between (pooled buffers get reused)
			other := []rune(s)
			for i := range other {
				other[i] = other[(i*7+3)%len(other)]
			}
			re.MatchString(string(other))
			re.FindAllStringIndex(string(other), -1)
			re.Replace(string(other), "-", -1, 1)
			for i := range kept {
				want := string(runes[chain[i].Index : chain[i].Index+chain[i].Length])
				if got := kept[i].String(); got != want {
					return fmt.Sprintf("match #%d kept from the ReplaceFunc evaluator on %q reads %q after later calls, it matched %q", i, s, got, want), "", len(chain), zeroWidth
				}
				nm, err := re.FindNextMatch(&kept[i])
				if err != nil {
					if mon.ResourceErr(err) {
						break
					}
					return "FindNextMatch on a kept evaluator match: " + err.Error(), "", len(chain), zeroWidth
				}
				wantNext := "nil"
				if i+1 < len(chain) {
					wantNext = chain[i+1].Text
				}
				if got := mon.ObsAll(nm); got != wantNext {
					return fmt.Sprintf("FindNextMatch on match #%d kept from the ReplaceFunc evaluator on %q gives %s, the chain continues with %s", i, s, got, wantNext), "", len(chain), zeroWidth
				}
			}
		}
	}
	return "", "", len(chain), zeroWidth
}

// malformedTextLaw: on a string holding malformed UTF-8 the find-all byte spans must be those of the
// FindNextMatch chain over the decoded text (every malformed byte one U+FFFD of width one), mapped
// back through an independent index map.
func malformedTextLaw(re *regexp2.Regexp, s string) (detail, incon string) {
	im := mon.NewIndexMap(s)
	chain, err, runaway := mon.Chain(re, im.Runes)
	if err != nil {
		if mon.ResourceErr(err) {
			return "", "chain-" + mon.ErrClass(err)
		}
		return "FindNextMatch chain error: " + err.Error(), ""
	}
	if runaway {
		return fmt.Sprintf("the FindNextMatch chain over %q does not end", s), ""
	}
	var want [][]int
	for _, m := range mon.ExpectAll(chain, -1, re.RightToLeft()) {
		want = append(want, []int{im.Off[m.Index], im.Off[m.Index+m.Length]})
	}
	got, err := re.FindAllStringIndex(s, -1)
	if err != nil {
		if mon.ResourceErr(err) {
			return "", "findall-" + mon.ErrClass(err)
		}
		return "FindAllStringIndex error: " + err.Error(), ""
	}
	if mon.PairsString(got) != mon.PairsString(want) {
		return fmt.Sprintf("FindAllStringIndex(%q, -1) = %v, the FindNextMatch chain over the decoded text gives the byte spans %v", s, got, want), ""
	}
	// and the chain obtained through the string entry point reports the same byte ranges
	m, err := re.FindStringMatch(s)
	for i := 0; err == nil && m != nil && i < len(chain); i++ {
		if b0, bl := m.ByteRange(); b0 != im.Off[chain[i].Index] || bl != im.Off[chain[i].Index+chain[i].Length]-im.Off[chain[i].Index] {
			return fmt.Sprintf("match #%d of the string chain over %q has ByteRange (%d,%d), the decoded text gives (%d,%d)", i, s, b0, bl, im.Off[chain[i].Index], im.Off[chain[i].Index+chain[i].Length]-im.Off[chain[i].Index]), ""
		}
		m, err = re.FindNextMatch(m)
	}
	return "", ""
}

func replayC07(w core.Witness) string {
	re, err := mon.Compile(w.Pattern, w.Options, w.COpts)
	if err != nil {
		return ""
	}
	if w.InputHex != "" {
		re.MatchTimeout = shortTimeout
		d, _ := malformedTextLaw(re, unhex(w.InputHex))
		return d
	}
	d, _, _, _ := iterationLaws(re, witnessRunes(w), func(string) {})
	return d
}

// zeroWidthProfile is rich in nullable and zero-width shapes.
func zeroWidthProfile(rng *rand.Rand) *gen.Profile {
	p := fullProfile(rng)
	p.Depth = 1 + rng.Intn(2)
	p.MaxKids = 2
	p.Quants = [][2]int{{0, -1}, {0, 1}, {0, 2}, {1, -1}, {0, -1}, {0, 1}}
	p.RepeatP = 50
	p.AltP = 45
	p.Balancing = false
	p.ExplicitNum = false
	p.Spellings = false
	if len(p.Letters) > 3 {
		p.Letters = p.Letters[:3]
	}
	return p
}

func runC07(r *core.Run) int {
	r.ReplayKnown(replayC07)
	nPat := r.Pick(12000, 200000)
	nDirected := r.Pick(16, 30)
	base := rand.New(rand.NewSource(r.Seed*67867967 + 7)).Int63()
	r.Parallel(nPat, func(i int, l *core.Local) {
		rng := rand.New(rand.NewSource(base + int64(i)*1000003))
		var pc *patCase
		if i%4 == 3 {
			pc = makePattern(i, rng, [3]int{1, 0, 2}, 10)
			noteCtx(l, pc)
		} else {
			opts := 0
			for _, o := range []regexp2.RegexOptions{regexp2.IgnoreCase, regexp2.Multiline, regexp2.Singleline, regexp2.RightToLeft, regexp2.RE2, regexp2.ECMAScript} {
				if rng.Intn(5) == 0 {
					opts |= int(o)
				}
			}
			if rng.Intn(3) == 0 {
				opts |= int(regexp2.RightToLeft)
			}
			g := gen.NewG(rng, zeroWidthProfile(rng))
			p := g.Random(envOf(opts), false)
			pc = &patCase{src: p.Src, opts: opts, pat: p, origin: "random-zero-width"}
		}
		if pc == nil || !r.ClaimPattern(fmt.Sprintf("%d/%s", pc.opts, pc.src)) {
			return
		}
		re, err := mon.Compile(pc.src, pc.opts, 0)
		if err != nil {
			l.Count("compile_rejected", 1)
			return
		}
		re.MatchTimeout = shortTimeout
		l.Count("patterns", 1)
		if re.RightToLeft() {
			l.Count("patterns_rtl", 1)
		}
		st := func(k string) { l.Count("law_"+k, 1) }
		var nontriv int64
		timeouts := 0
		for _, runes := range inputsFor(pc, rng, 3, nDirected) {
			if r.Stopped() {
				return
			}
			detail, incon, chainLen, zw := iterationLaws(re, runes, st)
			l.Eval(1)
			if incon != "" {
				l.Inconclusive(incon)
				timeouts++
				if timeouts >= 3 {
					break
				}
				continue
			}
			l.Count("matches_in_chains", int64(chainLen))
			l.Count("zero_width_matches_in_chains", int64(zw))
			if chainLen >= 2 {
				nontriv++
				if nontriv == 1 {
					l.Sample(map[string]any{"pattern": pc.src, "options": pc.opts, "input": string(runes), "matches": chainLen, "zero_width": zw})
				}
			}
			if detail != "" {
				spc, sr, _ := shrinkCase(pc, runes, 0, func(src string, in []rune, _ int) bool {
					re2, err := mon.Compile(src, pc.opts, 0)
					if err != nil {
						return false
					}
					re2.MatchTimeout = shortTimeout
					d, _, _, _ := iterationLaws(re2, in, func(string) {})
					return d != ""
				})
				w := witnessOf(spc, sr, 0)
				w.Args["original_pattern"] = pc.src
				if d2 := replayC07(w); d2 != "" {
					detail = d2
				} else {
					w = witnessOf(pc, runes, 0)
				}
				l.Violate(core.Violation{Kind: "iteration-law", Detail: detail, Witness: w})
				return
			}
			// the same text with malformed UTF-8 spliced in
			if validRunes(runes) && rng.Intn(3) == 0 {
				s2 := corrupt(string(runes), rng)
				d2, inc2 := malformedTextLaw(re, s2)
				l.Eval(1)
				l.Count("law_malformed-text", 1)
				if inc2 != "" {
					l.Inconclusive(inc2)
				} else if d2 != "" {
					w := witnessOf(pc, nil, 0)
					w.InputHex = fmt.Sprintf("%x", s2)
					l.Violate(core.Violation{Kind: "iteration-law", Detail: d2, Witness: w})
					return
				}
			}
		}
		l.NontrivialN(nontriv)
	})
	r.Extras["bounds"] = map[string]any{"patterns": nPat, "exhaustive_len": 3, "directed_inputs_per_pattern": nDirected, "n": []int{-1, 0, 1, 2, 3}}
	return r.Finish(
		"random ASTs rich in nullable and zero-width shapes (optional loops, anchors, \\G, look-arounds, empty branches), templates and corpus patterns, both directions; per (pattern,input) the FindNextMatch chain is checked for strict advance, disjointness, no repeated empty match, at most len+1 matches, every element equal to an independent naive search from the previous end (one further after an empty match) with \\G bound to that end, and the find-all calls (regexp2 and compat, n in {-1,0,1,2,3}) equal to the chain minus empty matches abutting the preceding match; for a third of the inputs also with malformed UTF-8 spliced in (every class of malformed sequence): FindAllStringIndex byte spans and the ByteRange of each chain element against the chain over the decoded text through an independent index map; non-trivial = distinct (pattern,input) with at least two matches in the chain",
		[]string{"the naive-scan hook with a separate \\G origin recomputes each next match"},
		map[string]int64{"evaluations": 50000, "distinct_nontrivial": 10000, "zero_width_matches_in_chains": 10000, "patterns_rtl": 200})
}
