package main

import (
	"fmt"
	"math/rand"
	"strings"

	regexp2 "github.com/dlclark/regexp2/v2"
	"github.com/dlclark/regexp2/v2/syntax"

	"verif/internal/core"
	"verif/internal/mon"
)

// C03: the accelerated search against a naive scan of the same compiled program.

func init() {
	register("C03", runC03, replayC03)
}

// accelCompare judges one (regexp, input, start). It returns a description of
// the disagreement (or ""), an inconclusive reason (or ""), and whether the
// naive scan had to pass over at least one position (non-trivial).
func accelCompare(re *regexp2.Regexp, runes []rune, start int) (detail, got, want, incon string, nontrivial bool) {
	nm, nerr := re.VerifNaiveFind(runes, start, start)
	if nerr != nil {
		if mon.ResourceErr(nerr) {
			return "", "", "", "naive-" + mon.ErrClass(nerr), false
		}
		return "naive scan returned an error: " + nerr.Error(), "", "", "", false
	}
	want = mon.ObsAll(nm)
	if nm == nil {
		nontrivial = len(runes) > 0
	} else {
		nontrivial = nm.RuneIndex != start && !(re.RightToLeft() && nm.RuneIndex+nm.RuneLength == start)
	}
	am, aerr := re.FindRunesMatchStartingAt(runes, start)
	if aerr != nil {
		if mon.ResourceErr(aerr) {
			return "", "", want, "engine-" + mon.ErrClass(aerr), nontrivial
		}
		return "FindRunesMatchStartingAt returned an error: " + aerr.Error(), "error", want, "", nontrivial
	}
	got = mon.ObsAll(am)
	if got != want {
		return fmt.Sprintf("FindRunesMatchStartingAt(%q, %d) = %s but attempting the same program at every position gives %s", string(runes), start, got, want), got, want, "", nontrivial
	}
	// string entry point (goes through the raw-string prefix filter)
	if validRunes(runes) {
		off := byteOffsets(runes)
		s := string(runes)
		sm, serr := re.FindStringMatchStartingAt(s, off[start])
		if serr != nil {
			if mon.ResourceErr(serr) {
				return "", got, want, "engine-" + mon.ErrClass(serr), nontrivial
			}
			return fmt.Sprintf("FindStringMatchStartingAt(%q, %d) returned an error: %v", s, off[start], serr), "error", want, "", nontrivial
		}
		if sg := mon.ObsAll(sm); sg != want {
			return fmt.Sprintf("FindStringMatchStartingAt(%q, %d) = %s but attempting the same program at every position gives %s", s, off[start], sg, want), sg, want, "", nontrivial
		}
		def := 0
		if re.RightToLeft() {
			def = len(runes)
		}
		if start == def {
			// boolean calls use the stripped program and the raw-string filter
			if b, err := re.MatchString(s); err == nil && b != (nm != nil) {
				return fmt.Sprintf("MatchString(%q) = %v but the naive scan gives %s", s, b, want), fmt.Sprint(b), want, "", nontrivial
			}
			if b, err := re.MatchRunes(runes); err == nil && b != (nm != nil) {
				return fmt.Sprintf("MatchRunes(%q) = %v but the naive scan gives %s", s, b, want), fmt.Sprint(b), want, "", nontrivial
			}
		}
	}
	return "", got, want, "", nontrivial
}

func replayC03(w core.Witness) string {
	re, err := mon.Compile(w.Pattern, w.Options, w.COpts)
	if err != nil {
		return "" // not a pattern: nothing to accelerate
	}
	if w.InputHex != "" {
		s2 := unhex(w.InputHex)
		nm, nerr := re.VerifNaiveFind([]rune(s2), 0, 0)
		sm, serr := re.FindStringMatch(s2)
		if nerr == nil && serr == nil {
			if want, got := mon.ObsAll(nm), mon.ObsAll(sm); want != got {
				return fmt.Sprintf("FindStringMatch(%q) = %s but attempting the same program at every position of the decoded text gives %s", s2, got, want)
			}
		}
		return ""
	}
	d, _, _, _, _ := accelCompare(re, witnessRunes(w), w.Start)
	return d
}

// findModeOf reports the published find mode (evidence only).
func findModeOf(src string, opts, copts int) string {
	tree, err := mon.ParseLocked(src, syntax.ParseOptions{RegexOptions: syntax.RegexOptions(opts), CodeGen: copts&mon.COCodeGen != 0})
	if err != nil || tree.FindOptimizations == nil {
		return "none"
	}
	return fmt.Sprintf("mode_%v", tree.FindOptimizations.FindMode)
}

func runC03(r *core.Run) int {
	r.ReplayKnown(replayC03)
	nPat := r.Pick(14000, 240000)
	nDirected := r.Pick(30, 60)
	base := rand.New(rand.NewSource(r.Seed*104729 + 3)).Int63()
	runC03Surrogates(r)
	r.Parallel(nPat, func(i int, l *core.Local) {
		rng := rand.New(rand.NewSource(base + int64(i)*1000003))
		pc := makePattern(i, rng, [3]int{3, 2, 1}, 12)
		noteCtx(l, pc)
		if pc == nil {
			return
		}
		copts := []int{0, 0, mon.COCodeGen, mon.CONoASCIIBitmap, mon.COCodeGen | mon.CONoASCIIBitmap}[rng.Intn(5)]
		if !r.ClaimPattern(fmt.Sprintf("%d/%d/%s", pc.opts, copts, pc.src)) {
			return
		}
		re, err := mon.Compile(pc.src, pc.opts, copts)
		if err != nil {
			l.Count("compile_rejected_"+pc.origin[:3], 1)
			return
		}
		re.MatchTimeout = shortTimeout
		l.Count("patterns", 1)
		l.Count("origin_"+pc.origin, 1)
		l.Count("find_"+findModeOf(pc.src, pc.opts, copts), 1)
		if re.RightToLeft() {
			l.Count("patterns_rtl", 1)
		}
		var nontriv int64
		timeouts := 0
		for _, runes := range inputsFor(pc, rng, 3, nDirected) {
			if r.Stopped() {
				return
			}
			hit := false
			for s := 0; s <= len(runes); s += offsetStep(len(runes), s) {
				detail, got, want, incon, nt := accelCompare(re, runes, s)
				l.Eval(1)
				if incon != "" {
					l.Inconclusive(incon)
					timeouts++
					if timeouts >= 3 {
						// a catastrophic pattern: stop spending the budget on it
						l.Count("patterns_abandoned_after_timeouts", 1)
						l.NontrivialN(nontriv)
						return
					}
					continue
				}
				if nt {
					hit = true
				}
				if detail != "" {
					spc, sr, ss := shrinkCase(pc, runes, s, func(src string, in []rune, st int) bool {
						re2, err := mon.Compile(src, pc.opts, copts)
						if err != nil {
							return false
						}
						re2.MatchTimeout = shortTimeout
						d, _, _, _, _ := accelCompare(re2, in, st)
						return d != ""
					})
					if re2, err := mon.Compile(spc.src, pc.opts, copts); err == nil {
						if d2, g2, w2, _, _ := accelCompare(re2, sr, ss); d2 != "" {
							detail, got, want = d2, g2, w2
							pcOrig := pc
							pc, runes, s = spc, sr, ss
							defer func() { _ = pcOrig }()
						}
					}
					w := witnessOf(pc, runes, s)
					w.COpts = copts
					l.Violate(core.Violation{Kind: "acceleration-changed-result", Detail: detail, Observed: got, Expected: want, Witness: w})
					return
				}
			}
			// the same text with one or two runes replaced by bytes that are not valid UTF-8 (each byte
			// decodes to U+FFFD): the raw-string filters work on these bytes, the naive scan on the
			// decoded runes
			if len(runes) > 0 && validRunes(runes) && !re.RightToLeft() && rng.Intn(3) == 0 {
				parts := make([]string, len(runes))
				for i, c := range runes {
					parts[i] = string(c)
				}
				bad := []string{"\x80", "\x93", "\xbf", "\xff", "\xc3", "\xe4", "\xe4\xb8", "\xf0\x9f"}
				for k := 1 + rng.Intn(2); k > 0; k-- {
					parts[rng.Intn(len(parts))] = bad[rng.Intn(len(bad))]
				}
				s2 := strings.Join(parts, "")
				runes2 := []rune(s2)
				l.Count("inputs_with_invalid_bytes", 1)
				nm, nerr := re.VerifNaiveFind(runes2, 0, 0)
				sm, serr := re.FindStringMatch(s2)
				l.Eval(1)
				if nerr == nil && serr == nil {
					if want, got := mon.ObsAll(nm), mon.ObsAll(sm); want != got {
						w := witnessOf(pc, runes2, 0)
						w.COpts = copts
						w.InputHex = fmt.Sprintf("%x", s2)
						l.Violate(core.Violation{Kind: "acceleration-changed-result", Detail: fmt.Sprintf("FindStringMatch(%q) = %s but attempting the same program at every position of the decoded text gives %s", s2, got, want), Observed: got, Expected: want, Witness: w})
						return
					}
				}
			}
			if hit {
				nontriv++
				if nontriv == 1 {
					l.Sample(map[string]any{"pattern": pc.src, "options": pc.opts, "copts": copts, "input": string(runes), "origin": pc.origin})
				}
			}
		}
		l.NontrivialN(nontriv)
	})
	r.Extras["bounds"] = map[string]any{"patterns": nPat, "exhaustive_len": 3, "directed_inputs_per_pattern": nDirected, "start_offsets": "all"}
	return r.Finish(
		"patterns from shape templates (one per search mode / side condition), random full-syntax ASTs and the harvested corpus, compiled with random options and compile options (code-gen analysis, ASCII bitmap); per pattern bounded-exhaustive and pattern-directed inputs at every start offset; evaluation = one (pattern,input,start) comparison of FindRunesMatchStartingAt, FindStringMatchStartingAt (and MatchString/MatchRunes at the default start) with VerifNaiveFind on the same compiled program; non-trivial = distinct (pattern,input) where the naive scan had to pass over at least one position before its answer",
		[]string{"the naive-scan hook resets the interpreter between attempts exactly as scan does", "timeouts / stack-limit errors make a case inconclusive"},
		map[string]int64{"evaluations": 50000, "distinct_nontrivial": 2000, "patterns": 300})
}
