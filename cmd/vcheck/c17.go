package main

import (
	"encoding/json"
	"fmt"
	"math/rand"
	"strconv"
	"strings"

	regexp2 "github.com/dlclark/regexp2/v2"

	"verif/internal/core"
	"verif/internal/gen"
	"verif/internal/mon"
)

// C17: group numbers and names form one consistent map, equal to the documented
// numbering rule computed on the AST.

func init() {
	register("C17", runC17, replayC17)
}

type c17Gen struct {
	rng     *rand.Rand
	next    rune
	gid     int
	names   []string
	named   bool
	numbers bool
	dups    bool
	inLook  bool
}

func (g *c17Gen) letter() *gen.Node {
	n := gen.L(g.next)
	g.next++
	return n
}

func (g *c17Gen) seq(depth int) *gen.Node {
	c := gen.Cat()
	k := 1 + g.rng.Intn(3)
	for i := 0; i < k; i++ {
		c.Kids = append(c.Kids, g.item(depth))
	}
	return c
}

var c17Names = []string{"n", "x", "foo", "A", "b2", "Zq", "_u", "n1", "é"}

func (g *c17Gen) item(depth int) *gen.Node {
	if depth <= 0 || g.rng.Intn(3) == 0 || g.next > 'w' {
		return g.letter()
	}
	switch g.rng.Intn(10) {
	case 0:
		return gen.NC(g.seq(depth - 1))
	case 1:
		return gen.At(g.seq(depth - 1))
	case 2:
		// a group inside a look-ahead, whose text is consumed right after
		if g.inLook {
			return g.letter()
		}
		g.inLook = true
		inner := g.group(depth - 1)
		g.inLook = false
		return gen.Cat(gen.Look(true, false, inner), textOf(inner))
	case 3:
		return &gen.Node{K: gen.KOptGroup, On: "n", Kids: []*gen.Node{g.seq(depth - 1)}}
	case 4:
		return &gen.Node{K: gen.KOptGroup, Off: "n", Kids: []*gen.Node{g.seq(depth - 1)}}
	}
	return g.group(depth - 1)
}

// textOf builds a literal copy of the text a group matches (its literal descendants).
func textOf(n *gen.Node) *gen.Node {
	c := gen.Cat()
	for _, r := range litText(n) {
		c.Kids = append(c.Kids, gen.L(r))
	}
	return c
}

// litText is the text a sub-pattern consumes: its literals outside look-aheads.
func litText(n *gen.Node) string {
	var sb strings.Builder
	var walk func(x *gen.Node)
	walk = func(x *gen.Node) {
		if x.K == gen.KLook {
			return
		}
		if x.K == gen.KLit {
			sb.WriteRune(x.R)
		}
		for _, k := range x.Kids {
			walk(k)
		}
	}
	walk(n)
	return sb.String()
}

func (g *c17Gen) group(depth int) *gen.Node {
	g.gid++
	n := &gen.Node{K: gen.KGroup, Capture: true, GID: g.gid}
	switch {
	case g.named && g.rng.Intn(3) == 0:
		if g.dups && len(g.names) > 0 && g.rng.Intn(4) == 0 {
			n.Name = g.names[g.rng.Intn(len(g.names))]
		} else {
			n.Name = c17Names[g.rng.Intn(len(c17Names))]
			for contains17(g.names, n.Name) {
				n.Name += string(rune('a' + g.rng.Intn(26)))
			}
			g.names = append(g.names, n.Name)
		}
		n.Quote = g.rng.Intn(4) == 0
	case g.numbers && g.rng.Intn(4) == 0:
		n.Num = []int{1, 2, 3, 5, 7, 12, 30}[g.rng.Intn(7)]
		// the same number written (?<05>..) or (?'5'..)
		if g.rng.Intn(3) == 0 {
			n.Zeros = 1 + g.rng.Intn(2)
		}
		n.Quote = g.rng.Intn(5) == 0
	}
	n.Kids = []*gen.Node{g.seq(depth)}
	return n
}

func contains17(a []string, s string) bool {
	for _, x := range a {
		if x == s {
			return true
		}
	}
	return false
}

type c17Config struct {
	name     string
	opts     int
	copts    int
	maintain bool
	ecma     bool
}

var c17Configs = []c17Config{
	{"default", 0, 0, false, false},
	{"MaintainCaptureOrder", 0, mon.COMaintainOrder, true, false},
	{"ECMAScript", int(regexp2.ECMAScript), 0, true, true},
	{"RE2", int(regexp2.RE2), 0, false, false},
	{"ExplicitCapture", int(regexp2.ExplicitCapture), 0, false, false},
	{"RE2+MaintainCaptureOrder", int(regexp2.RE2), mon.COMaintainOrder, true, false},
}

// expected group texts: number -> text of the LAST group (textual order) carrying that number
func expectedTexts(root *gen.Node) map[int]string {
	// groups sharing a number (duplicate names, an explicit number colliding with an
	// unnamed group) share one capture list; the reported value is the capture made
	// last, i.e. the group that CLOSES last: post-order
	out := map[int]string{}
	var walk func(n *gen.Node)
	walk = func(n *gen.Node) {
		for _, k := range n.Kids {
			walk(k)
		}
		if n.K == gen.KGroup && n.Capture && n.Cap > 0 {
			out[n.Cap] = litText(n)
		}
	}
	walk(root)
	return out
}

func inputOf(root *gen.Node) string {
	return litText(root)
}

func hasExplicitNumber(root *gen.Node) bool {
	f := false
	root.Walk(func(n *gen.Node) {
		if n.K == gen.KGroup && n.Num > 0 {
			f = true
		}
	})
	return f
}

// numberingLaws judges one AST under one configuration.
func numberingLaws(root *gen.Node, cfg c17Config, st func(string)) (detail string, src string) {
	pat := gen.Finish(root, envOf(cfg.opts), cfg.maintain, gen.PrintOpts{})
	if pat == nil {
		return "", ""
	}
	src = pat.Src
	re, err := mon.Compile(src, cfg.opts, cfg.copts)
	if err != nil {
		return "pattern with this group mix is rejected: " + err.Error(), src
	}
	gi := pat.Groups
	nums := re.GetGroupNumbers()
	names := re.GetGroupNames()
	st("lists")
	if fmt.Sprint(nums) != fmt.Sprint(gi.Numbers) {
		return fmt.Sprintf("GetGroupNumbers() = %v, the numbering rule gives %v", nums, gi.Numbers), src
	}
	if len(names) != len(nums) {
		return fmt.Sprintf("GetGroupNames() has %d entries, GetGroupNumbers() %d", len(names), len(nums)), src
	}
	for i, n := range nums {
		want := gi.Names[n]
		if cfg.ecma && want == strconv.Itoa(n) {
			want = "" // ECMAScript: unnamed groups have no name
		}
		if names[i] != want {
			return fmt.Sprintf("GetGroupNames()[%d] = %q for group number %d, the numbering rule gives %q", i, names[i], n, want), src
		}
		st("roundtrip")
		if got := re.GroupNameFromNumber(n); got != want {
			return fmt.Sprintf("GroupNameFromNumber(%d) = %q, expected %q", n, got, want), src
		}
		if want != "" {
			if got := re.GroupNumberFromName(want); got != n {
				return fmt.Sprintf("GroupNumberFromName(%q) = %d, expected %d", want, got, n), src
			}
		}
	}
	if got := re.GroupNameFromNumber(gi.Max + 1); got != "" {
		return fmt.Sprintf("GroupNameFromNumber(%d) = %q for a number that is not a group", gi.Max+1, got), src
	}
	// numbers and names that designate no group
	isNum := map[int]bool{}
	for _, n := range nums {
		isNum[n] = true
	}
	var absentNums []int
	for n := -2; n <= gi.Max+3; n++ {
		if !isNum[n] {
			absentNums = append(absentNums, n)
		}
	}
	absentNums = append(absentNums, 1<<31-1, -1<<31)
	st("absent-lookups")
	for _, n := range absentNums {
		if got := re.GroupNameFromNumber(n); got != "" {
			return fmt.Sprintf("GroupNameFromNumber(%d) = %q for a number that is not a group", n, got), src
		}
	}
	absentNames := []string{"nosuchgroup", "", "99999999999999999999999", "18446744073709551617", strconv.Itoa(gi.Max + 1), "-1", " 1"}
	for _, nm := range absentNames {
		if got := re.GroupNumberFromName(nm); got != -1 {
			return fmt.Sprintf("GroupNumberFromName(%q) = %d for a name that is not a group", nm, got), src
		}
	}
	// a match: every group captures a text unique to it
	input := inputOf(root)
	m, err := re.FindStringMatch(input)
	if err != nil || m == nil {
		return fmt.Sprintf("the pattern should match its own literal text %q: match=%v err=%v", input, m != nil, err), src
	}
	for _, n := range absentNums {
		if g := m.GroupByNumber(n); g != nil {
			return fmt.Sprintf("Match.GroupByNumber(%d) returns group %q although %d is not a group number", n, g.Name, n), src
		}
	}
	for _, nm := range absentNames {
		if g := m.GroupByName(nm); g != nil {
			return fmt.Sprintf("Match.GroupByName(%q) returns group %q although no group has that name", nm, g.Name), src
		}
	}
	texts := expectedTexts(root)
	groups := m.Groups()
	if len(groups) != len(nums) {
		return fmt.Sprintf("Match.Groups() has %d entries for %d group numbers", len(groups), len(nums)), src
	}
	for i, n := range nums {
		if n == 0 {
			continue
		}
		want := texts[n]
		st("match-groups")
		if got := groups[i].String(); got != want || len(groups[i].Captures) == 0 {
			return fmt.Sprintf("Match.Groups()[%d] (group number %d) holds %q, the group with that number captures %q", i, n, got, want), src
		}
		if groups[i].Name != names[i] {
			return fmt.Sprintf("Match.Groups()[%d].Name = %q, GetGroupNames()[%d] = %q", i, groups[i].Name, i, names[i]), src
		}
		if g := m.GroupByNumber(n); g == nil || g.String() != want {
			return fmt.Sprintf("GroupByNumber(%d) does not hold %q", n, want), src
		}
		if names[i] != "" {
			if g := m.GroupByName(names[i]); g == nil || g.String() != want {
				return fmt.Sprintf("GroupByName(%q) does not hold %q", names[i], want), src
			}
		}
		// $n and ${name} in replacement strings
		st("replacement-refs")
		if got, err := re.Replace(input, fmt.Sprintf("[${%d}]", n), -1, 1); err != nil || got != "["+want+"]" {
			return fmt.Sprintf("Replace with ${%d} gives %q (err %v), expected %q", n, got, err, "["+want+"]"), src
		}
		if names[i] != "" && names[i] != strconv.Itoa(n) {
			if got, err := re.Replace(input, "[${"+names[i]+"}]", -1, 1); err != nil || got != "["+want+"]" {
				return fmt.Sprintf("Replace with ${%s} gives %q (err %v), expected %q", names[i], got, err, "["+want+"]"), src
			}
		}
		// back-references by number and by name designate the same group
		st("backrefs")
		for _, probe := range []string{`\k<` + strconv.Itoa(n) + `>`, `\k<` + names[i] + `>`} {
			if strings.HasSuffix(probe, "<>") {
				continue
			}
			if cfg.ecma && probe == `\k<`+strconv.Itoa(n)+`>` {
				probe = `\` + strconv.Itoa(n) + `(?:)`
			}
			re2, err := mon.Compile(src+probe, cfg.opts, cfg.copts)
			if err != nil {
				return fmt.Sprintf("appending the back-reference %s is rejected: %v", probe, err), src
			}
			ok, err := re2.MatchString(input + want)
			bad, _ := re2.MatchString(input + "~")
			if err != nil || !ok || (bad && want != "") {
				return fmt.Sprintf("pattern+%s: matches input+groupText=%v, matches input+\"~\"=%v; the back-reference should designate the group capturing %q", probe, ok, bad, want), src
			}
			// a conditional on the group, by number and by name, takes the branch of a group that
			// has captured
			if !cfg.ecma {
				st("conditional-refs")
				for _, ref := range []string{strconv.Itoa(n), names[i]} {
					if ref == "" {
						continue
					}
					probe := "(?(" + ref + ")~|!)"
					re4, err := mon.Compile(src+probe, cfg.opts, cfg.copts)
					if err != nil {
						return fmt.Sprintf("appending the conditional %s is rejected: %v", probe, err), src
					}
					yes, err := re4.MatchString(input + "~")
					no, _ := re4.MatchString(input + "!")
					if err != nil || !yes || no {
						return fmt.Sprintf("pattern+%s: matches input+\"~\"=%v, input+\"!\"=%v (err %v); group %d has captured, so the first branch is the one to take", probe, yes, no, err, n), src
					}
				}
			}
		}
	}
	// a balancing group appended to the pattern pops the group it designates (by number and by
	// name) and no other: capture counts before and after
	if !cfg.ecma {
		base := map[int]int{}
		for i, n := range nums {
			base[n] = len(groups[i].Captures)
		}
		for i, n := range nums {
			if n == 0 || base[n] == 0 {
				continue
			}
			for _, ref := range []string{strconv.Itoa(n), names[i]} {
				if ref == "" {
					continue
				}
				probe := "(?<-" + ref + ">)"
				re3, err := mon.Compile(src+probe, cfg.opts, cfg.copts)
				if err != nil {
					if cfg.opts == 0 && cfg.copts == 0 {
						return fmt.Sprintf("appending the balancing group %s is rejected: %v", probe, err), src
					}
					continue
				}
				st("balancing-refs")
				m3, err := re3.FindStringMatch(input)
				if err != nil || m3 == nil {
					return fmt.Sprintf("pattern+%s no longer matches %q (err %v): the group it pops has a capture", probe, input, err), src
				}
				for j, n2 := range re3.GetGroupNumbers() {
					want := base[n2]
					if n2 == n {
						want--
					}
					if got := len(m3.Groups()[j].Captures); got != want {
						return fmt.Sprintf("pattern+%s: group number %d has %d captures, expected %d (the balancing group pops group %d only)", probe, n2, got, want, n), src
					}
				}
			}
		}
	}
	return "", src
}

func replayC17(w core.Witness) string {
	switch reg, _ := w.Args["regression"].(string); reg {
	case "absent-lookups":
		re := regexp2.MustCompile(`(?<5>a)(?<10>b)`, regexp2.None)
		m, _ := re.FindStringMatch("ab")
		if m == nil {
			return "no match"
		}
		if g := m.GroupByNumber(1); g != nil {
			return fmt.Sprintf("(?<5>a)(?<10>b): GroupByNumber(1) returns group %q", g.Name)
		}
		re = regexp2.MustCompile(`(a)(b)`, regexp2.None)
		for _, nm := range []string{"", "18446744073709551617"} {
			if n := re.GroupNumberFromName(nm); n != -1 {
				return fmt.Sprintf("(a)(b): GroupNumberFromName(%q) = %d", nm, n)
			}
		}
		return ""
	case "leading-zero-number":
		// (?<01>b) is group number 1 in the pre-scan and in the parse alike
		for _, c := range []struct {
			p, plain string
			o        regexp2.RegexOptions
		}{{`(?<01>b)(c)`, `(?<1>b)(c)`, regexp2.None}, {`(?<05>b)`, `(?<5>b)`, regexp2.None}, {`(a)(?P<01>b)`, `(a)(?P<1>b)`, regexp2.RE2}, {`(?'007'b)(c)`, `(?'7'b)(c)`, regexp2.None}} {
			re, err := regexp2.Compile(c.p, c.o)
			if err != nil {
				return c.p + ": " + err.Error()
			}
			re2, err := regexp2.Compile(c.plain, c.o)
			if err != nil {
				return c.plain + ": " + err.Error()
			}
			if got, want := fmt.Sprint(re.GetGroupNames(), re.GetGroupNumbers()), fmt.Sprint(re2.GetGroupNames(), re2.GetGroupNumbers()); got != want {
				return c.p + ": names and numbers " + got + ", but " + c.plain + " gives " + want
			}
		}
		if re, err := regexp2.Compile(`x(?P<0>a)y`, regexp2.RE2); err == nil {
			m, _ := re.FindStringMatch("xay")
			return "x(?P<0>a)y compiles under RE2 (group 0 is the whole match): match " + mon.ObsAll(m)
		}
		re, err := regexp2.Compile(`(?<01>b)(c)`, regexp2.None, regexp2.OptionMaintainCaptureOrder())
		if err == nil {
			if _, err = re.FindStringMatch("bc"); err != nil {
				return err.Error()
			}
		}
		return ""
	case "python-numeric-name":
		re, err := regexp2.Compile(`(a)(?P<1>b)`, regexp2.RE2)
		if err != nil {
			return err.Error()
		}
		if got := fmt.Sprint(re.GetGroupNames(), re.GetGroupNumbers()); got != "[0 1] [0 1]" {
			return "(a)(?P<1>b) under RE2: names and numbers " + got + ", expected [0 1] [0 1] as for (a)(?<1>b)"
		}
		return ""
	}
	var ast gen.Node
	if err := json.Unmarshal(w.AST, &ast); err != nil {
		return "witness has no AST"
	}
	name, _ := w.Args["config"].(string)
	for _, cfg := range c17Configs {
		if cfg.name == name {
			d, _ := numberingLaws(&ast, cfg, func(string) {})
			return d
		}
	}
	return "unknown configuration " + name
}

func runC17(r *core.Run) int {
	r.ReplayKnown(replayC17)
	nPat := r.Pick(20000, 300000)
	base := rand.New(rand.NewSource(r.Seed*179424673 + 17)).Int63()
	r.Parallel(nPat, func(i int, l *core.Local) {
		rng := rand.New(rand.NewSource(base + int64(i)*1000003))
		cfg := c17Configs[rng.Intn(len(c17Configs))]
		g := &c17Gen{rng: rng, next: 'a', named: rng.Intn(4) != 0, numbers: rng.Intn(3) == 0, dups: rng.Intn(3) == 0}
		if cfg.ecma {
			g.numbers, g.dups = false, false
		}
		if cfg.maintain && !cfg.ecma && rng.Intn(20) != 0 {
			g.numbers = false // MaintainCaptureOrder + explicit numbers is a listed known finding: keep a small share
		}
		root := g.seq(2 + rng.Intn(2))
		if cfg.ecma {
			root.Walk(func(n *gen.Node) {
				n.Quote = false
				if n.K == gen.KOptGroup {
					n.On, n.Off = strings.ReplaceAll(n.On, "n", "i"), strings.ReplaceAll(n.Off, "n", "i")
				}
			})
		}
		if cfg.opts&int(regexp2.RE2) != 0 {
			// the Python spelling (?P<name>...), also for explicit numbers
			root.Walk(func(n *gen.Node) {
				if n.K == gen.KGroup && n.Capture && (n.Name != "" || n.Num > 0) && rng.Intn(2) == 0 {
					n.PName, n.Quote = true, false
				}
			})
		}
		detail, src := numberingLaws(root, cfg, func(k string) { l.Count("law_"+k, 1) })
		if src == "" {
			return
		}
		l.Eval(1)
		if !r.ClaimPattern(cfg.name + "/" + src) {
			return
		}
		l.Count("config_"+cfg.name, 1)
		if g.gid >= 2 {
			l.NontrivialN(1)
			l.Sample(map[string]any{"pattern": src, "config": cfg.name})
		}
		if detail != "" {
			if cfg.maintain && !cfg.ecma && hasExplicitNumber(root) {
				if k := r.KnownClass("maintain-capture-order-with-explicit-numbers"); k != nil {
					r.KnownHit(k.ID)
					return
				}
			}
			ast, _ := json.Marshal(root)
			l.Violate(core.Violation{Kind: "group-map-inconsistent", Detail: detail, Witness: core.Witness{Pattern: src, AST: ast, Options: cfg.opts, COpts: cfg.copts, Args: map[string]any{"config": cfg.name}}})
		}
	})
	r.Extras["bounds"] = map[string]any{"patterns": nPat, "configs": []string{"default", "MaintainCaptureOrder", "ECMAScript", "RE2", "ExplicitCapture", "RE2+MaintainCaptureOrder"}, "nesting": "2-3", "groups_per_pattern": "up to ~12"}
	return r.Finish(
		"patterns built from random nestings of unnamed, named (incl. duplicate names and (?'n') spelling), explicitly numbered (sparse: 1,2,3,5,7,12,30, also written with leading zeros (?<05>..) and quoted (?'5'..)), non-capturing, atomic, look-ahead and (?n)/(?-n) scoped groups over pairwise distinct literals, so that every group captures a text unique to it; under default / MaintainCaptureOrder / ECMAScript / RE2 (with the (?P<name>) / (?P<5>) spellings) / ExplicitCapture / RE2+MaintainCaptureOrder; lookups of numbers and names that designate no group must fail; an appended balancing group (?<-n>) / (?<-name>) must pop exactly the designated group; an appended conditional (?(n)~|!) / (?(name)~|!) must take the branch of a group that has captured; evaluation = one (pattern,configuration) for which the name and number lists, the four lookups, Match.Groups order, GroupByName/GroupByNumber, $n / ${name} in Replace and appended \\k<n> / \\k<name> back-references are all compared with the documented numbering rule computed on the AST; non-trivial = distinct (pattern,configuration) with at least two groups",
		[]string{"the numbering rule (gen.Number) is harness code written from the documentation", "ECMAScript: unnamed groups have no name (documented)"},
		map[string]int64{"evaluations": 10000, "distinct_nontrivial": 5000, "law_backrefs": 10000, "law_replacement-refs": 10000})
}
