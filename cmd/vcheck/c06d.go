package main

import (
	"fmt"
	"math/rand"
	"regexp"
	"strconv"
	"strings"

	regexp2 "github.com/dlclark/regexp2/v2"
	"github.com/dlclark/regexp2/v2/compat"

	"verif/internal/core"
	"verif/internal/mon"
)

// C06, patterns given as text (outside the AST generator's fragment):
//
// nested counted loops (?:X{m,n}){p,q} over a non-nullable X. The engine multiplies
// directly nested repeaters of equal laziness into X{m*p,n*q} when n >= 2m (and not
// p = 0 with m > 1), as .NET does; that keeps the language but not the preference of
// a backtracking search, so the adapter can differ from Go there (known finding K6).
// The difference is accepted only when it is EXPLAINED: the adapter must then agree
// with Go's regexp compiled from the multiplied pattern on every method. Everything
// else (no multiplication possible, mixed laziness) must agree with Go outright.
//
// negated POSIX classes under (?i): Go folds the class and negates the result, the
// engine negates and folds the whole bracket at the end (known finding K7); accepted
// only for patterns of exactly that family.

type c06Text struct {
	src    string
	merged string // "" when the engine cannot multiply
	class  string // known class a difference may belong to
}

func quantText(m, n int, lazy bool) string {
	var q string
	switch {
	case m == 0 && n == -1:
		q = "*"
	case m == 1 && n == -1:
		q = "+"
	case m == 0 && n == 1:
		q = "?"
	case n == -1:
		q = "{" + strconv.Itoa(m) + ",}"
	case m == n:
		q = "{" + strconv.Itoa(m) + "}"
	default:
		q = "{" + strconv.Itoa(m) + "," + strconv.Itoa(n) + "}"
	}
	if lazy {
		q += "?"
	}
	return q
}

func nestedLoopCase(rng *rand.Rand) c06Text {
	x := []string{"a", "[ab]", `\d`, `.`, "(?:ab)", `[^b]`}[rng.Intn(6)]
	m := 1 + rng.Intn(3)
	n := m + rng.Intn(5)
	if rng.Intn(5) == 0 {
		n = -1
	}
	p := rng.Intn(3)
	q := p + rng.Intn(3)
	if q == 0 {
		q = 1
	}
	if rng.Intn(3) == 0 {
		q = -1
	}
	lazyIn, lazyOut := false, false
	switch rng.Intn(6) {
	case 0:
		lazyIn, lazyOut = true, true
	case 1:
		lazyIn = true
	case 2:
		lazyOut = true
	}
	lead := []string{"", "", "b", "^", `\b`}[rng.Intn(5)]
	tail := []string{"", "", "", "a", "$", "b"}[rng.Intn(6)]
	c := c06Text{src: lead + "(?:" + x + quantText(m, n, lazyIn) + ")" + quantText(p, q, lazyOut) + tail, class: "nested-repeaters-multiplied"}
	if m == n && m == 1 {
		return c // X{1} is X: nothing nested
	}
	if lazyIn == lazyOut && !(p == 0 && m > 1) && (n == -1 || n >= 2*m) {
		mm, nn := m*p, -1
		if n != -1 && q != -1 {
			nn = n * q
		}
		if mm > 1000 || nn > 1000 {
			return c
		}
		c.merged = lead + x + quantText(mm, nn, lazyOut) + tail
		if mm == 0 && nn == 0 {
			c.merged = lead + tail
		}
	}
	return c
}

var c06PosixNames = []string{"alnum", "alpha", "ascii", "blank", "cntrl", "digit", "graph", "lower", "print", "punct", "space", "upper", "word", "xdigit"}

func buildTextCase(src string) (a compat.Matcher, g *regexp.Regexp, bad string) {
	g, err := regexp.Compile(src)
	if err != nil {
		return nil, nil, ""
	}
	re, err := mon.Compile(src, int(regexp2.RE2), 0)
	if err != nil {
		return nil, g, "Go's regexp accepts the pattern, regexp2 in RE2 mode rejects it: " + err.Error()
	}
	re.MatchTimeout = shortTimeout
	return compat.Wrap(re), g, ""
}

// textLaw compares one text pattern on one input; explained reports a difference that the
// multiplied pattern accounts for.
func textLaw(c c06Text, s string, st func(string)) (detail string, explained, incon bool) {
	a, g, bad := buildTextCase(c.src)
	if bad != "" {
		return bad, false, false
	}
	if a == nil {
		return "", false, false
	}
	d, in := compareMatchers(a, g, s, st)
	if in {
		return "", false, true
	}
	if d == nil {
		return "", false, false
	}
	detail = fmt.Sprintf("%s on %q: adapter %s, Go regexp %s", d.method, s, d.got, d.want)
	if c.merged != "" {
		if gm, err := regexp.Compile(c.merged); err == nil {
			if d2, in2 := compareMatchers(a, gm, s, func(string) {}); d2 == nil && !in2 {
				return detail, true, false
			}
		}
	}
	return detail, false, false
}

func replayC06Text(w core.Witness) string {
	c := c06Text{src: w.Pattern}
	c.merged, _ = w.Args["multiplied"].(string)
	d, _, _ := textLaw(c, w.Input, func(string) {})
	return d
}

func runC06Text(r *core.Run) {
	n := r.Pick(1500, 30000)
	base := rand.New(rand.NewSource(r.Seed*15485863 + 606)).Int63()
	r.Parallel(n, func(i int, l *core.Local) {
		rng := rand.New(rand.NewSource(base + int64(i)*1000003))
		st := func(k string) {}
		c := nestedLoopCase(rng)
		if !r.ClaimPattern("text/" + c.src) {
			return
		}
		l.Count("nested_loop_patterns", 1)
		if c.merged != "" {
			l.Count("nested_loop_patterns_the_engine_multiplies", 1)
		}
		for k := 0; k < 12; k++ {
			var sb strings.Builder
			for j := rng.Intn(9); j > 0; j-- {
				sb.WriteByte("aaaabbb1 "[rng.Intn(9)])
			}
			s := sb.String()
			d, explained, incon := textLaw(c, s, st)
			l.Eval(1)
			l.Count("nested_loop_comparisons", 1)
			if incon {
				l.Inconclusive("engine-resource-error")
				break
			}
			if d == "" {
				continue
			}
			if explained {
				if k := r.KnownClass(c.class); k != nil {
					r.KnownHit(k.ID)
					l.Count("nested_loop_differences_explained_by_multiplication", 1)
					continue
				}
			}
			l.Violate(core.Violation{Kind: "differs-from-go-regexp", Detail: d + " (pattern " + c.src + ")", Witness: core.Witness{Kind: "text", Pattern: c.src, Options: int(regexp2.RE2), Input: s, Args: map[string]any{"multiplied": c.merged}}})
			return
		}
	})
	// a class under a long exact (or nearly exact) count followed by something better to search for:
	// the fixed-distance sets of the prefix analysis; inputs hold runs of exactly, one less and one
	// more than the count
	nLong := r.Pick(400, 6000)
	r.Parallel(nLong, func(i int, l *core.Local) {
		rng := rand.New(rand.NewSource(base + 77 + int64(i)*1000003))
		type cls struct{ src, members string }
		x := []cls{{"[ab]", "ab"}, {`\d`, "0123456789"}, {"[0-9a-f]", "0123456789abcdef"}, {"[^c-]", "abz01 "}, {".", "ab-c1"}, {`\w`, "ab_09Z"}}[rng.Intn(6)]
		y := []cls{{"c", "c"}, {"-", "-"}, {"[c-]", "c-"}, {"cd", "cd"}, {"(?:c|-)", "c-"}, {"z$", "z"}}[rng.Intn(6)]
		cnt := 2 + rng.Intn(48)
		q := "{" + strconv.Itoa(cnt) + "}"
		switch rng.Intn(6) {
		case 0:
			q = "{" + strconv.Itoa(cnt) + "," + strconv.Itoa(cnt+1+rng.Intn(3)) + "}"
		case 1:
			q = "{" + strconv.Itoa(cnt) + ",}"
		}
		open, close := "", ""
		switch rng.Intn(4) {
		case 0:
			open, close = "(", ")"
		case 1:
			open, close = "(?:", ")"
		}
		c := c06Text{src: []string{"", "", "^", "x"}[rng.Intn(4)] + open + x.src + q + close + y.src}
		if !r.ClaimPattern("text/" + c.src) {
			return
		}
		l.Count("long_count_patterns", 1)
		for k := 0; k < 8; k++ {
			var sb strings.Builder
			sb.WriteString([]string{"", "x", "c-x", "ab x"}[rng.Intn(4)])
			for rep := 1 + rng.Intn(2); rep > 0; rep-- {
				run := cnt + []int{0, 0, 0, -1, 1, 2}[rng.Intn(6)]
				for j := 0; j < run; j++ {
					sb.WriteByte(x.members[rng.Intn(len(x.members))])
				}
				sb.WriteString(y.members[:1+rng.Intn(len(y.members))])
				if y.src == "cd" {
					sb.WriteString("d")
				}
			}
			s := sb.String()
			d, _, incon := textLaw(c, s, func(string) {})
			l.Eval(1)
			l.Count("long_count_comparisons", 1)
			if incon {
				l.Inconclusive("engine-resource-error")
				break
			}
			if d != "" {
				l.Violate(core.Violation{Kind: "differs-from-go-regexp", Detail: d + " (pattern " + c.src + ")", Witness: core.Witness{Kind: "text", Pattern: c.src, Options: int(regexp2.RE2), Input: s}})
				return
			}
		}
	})
	// negated POSIX classes under (?i), every single rune of a small alphabet
	alphabet := []rune("aAkKsSzZ09_ -\téÉµſKİıΣσς")
	forms := []string{`(?i)^[[:^%s:]]$`, `(?i)^[^[:%s:]]$`, `(?i)^[[:^%s:]0]$`, `^[[:^%s:]]$`, `(?i)^[[:%s:]]$`}
	r.Parallel(len(c06PosixNames)*len(forms), func(i int, l *core.Local) {
		name, form := c06PosixNames[i/len(forms)], forms[i%len(forms)]
		c := c06Text{src: fmt.Sprintf(form, name)}
		if strings.HasPrefix(form, "(?i)") && strings.Contains(form, "[:^") {
			c.class = "negated-posix-class-under-ignorecase"
		}
		l.Count("posix_class_patterns", 1)
		for _, ch := range alphabet {
			d, _, incon := textLaw(c, string(ch), func(string) {})
			l.Eval(1)
			if incon || d == "" {
				continue
			}
			if c.class != "" {
				if k := r.KnownClass(c.class); k != nil {
					r.KnownHit(k.ID)
					continue
				}
			}
			l.Violate(core.Violation{Kind: "differs-from-go-regexp", Detail: d + " (pattern " + c.src + ")", Witness: core.Witness{Kind: "text", Pattern: c.src, Options: int(regexp2.RE2), Input: string(ch)}})
			return
		}
	})
}
