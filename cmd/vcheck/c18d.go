package main

import (
	"fmt"
	"math/rand"
	"strings"

	regexp2 "github.com/dlclark/regexp2/v2"

	"verif/internal/core"
	"verif/internal/mon"
)

// C18, directed: an option scope ends at its closing parenthesis whatever construct it
// contains. For every construct K that the parser handles on a path of its own (named
// and Python-style back-references, named / balancing / atomic groups, look-arounds,
// conditionals, comments, nested switches, classes) and every non-empty option set O:
//
//	PRE (?O: K x ) REST     must equal     PRE (?O: K x ) (?-O: REST )
//	PRE ( (?O) K x ) REST   must equal     PRE ( (?O) K x ) (?-O: REST )
//
// REST = "(y) .$" shows every letter of O should it leak: i (y/Y), n ((y) stops capturing),
// x (the blank), s (. on \n) and m ($ before \n).

type c18Construct struct {
	pre, k string
	text   string // a text PRE+K x matches
	re2    bool   // needs RE2 (Python spellings)
}

var c18Constructs = []c18Construct{
	{`(?<n>a)`, `\k<n>`, "aax", false},
	{`(?<n>a)`, `\k'n'`, "aax", false},
	{`(?<n>a)`, `\1`, "aax", false},
	{`(?<n>a)`, `(?(n)b|c)`, "abx", false},
	{`(?<n>a)`, `(?(1)b|c)`, "abx", false},
	{`(?<n>a)`, `(?(?=b)b|c)`, "abx", false},
	{`(?<n>a)`, `(?(b)b|c)`, "abx", false},
	{`(?<n>a)`, `(?<m-n>)b`, "abx", false},
	{`(?<n>a)`, `(?<-n>)b`, "abx", false},
	{`(?<n>a)`, `(?'m'b)`, "abx", false},
	{`(?<n>a)`, `(?<n>b)`, "abx", false},
	{`(?<n>a)`, `(?<7>b)`, "abx", false},
	{`a`, `(?#comment)b`, "abx", false},
	{`a`, `(?>b)`, "abx", false},
	{`a`, `(?=b)b`, "abx", false},
	{`a`, `(?!c)b`, "abx", false},
	{`a`, `(?<=a)b`, "abx", false},
	{`a`, `(?<!c)b`, "abx", false},
	{`a`, `(?s-i:b)`, "abx", false},
	{`a`, `(?-i)b`, "abx", false},
	{`a`, `(b(?m)c)`, "abcx", false},
	{`a`, `(?:b|(?x)c)`, "abx", false},
	{`a`, `\p{Ll}`, "abx", false},
	{`a`, `[a-z-[c]]`, "abx", false},
	{`a`, `b{1,2}?`, "abx", false},
	{`a`, `\x62`, "abx", false},
	{`a`, `\Ab|b`, "abx", false},
	{`(?P<n>a)`, `(?P=n)`, "aax", true},
	{`(?P<n>a)`, `(?P<m>b)`, "abx", true},
	{`(?P<n>a)`, `(?P<n>b)`, "abx", true},
	{`(?P<n>a)`, `(?P=n)(?P=n)`, "aaax", true},
	{`a`, `[[:alpha:]]`, "abx", true},
	{`a`, `\pL`, "abx", true},
	{`a`, `\z|b`, "abx", true},
}

const c18Rest = `(y) .$`

var c18RestTexts = []string{"y q", "Y q", "yq", "y \n", "Y \n", "y q\nr", "y \n\n", "yq\n", "Y Q", "y  q", "y\tq"}

func scopeRestLaw(c c18Construct, o int, kind int, base int, flip bool) (detail string, compared int, p1 string) {
	ls := lettersOf(o)
	if ls == "" {
		return "", 0, ""
	}
	var scope string
	switch kind {
	case 0:
		scope = "(?" + ls + ":" + c.k + "x)"
	case 1:
		scope = "((?" + ls + ")" + c.k + "x)"
	default:
		scope = "(?<g>w|(?" + ls + ")" + c.k + "x)"
	}
	p1 = c.pre + scope + c18Rest
	p2 := c.pre + scope + "(?-" + ls + ":" + c18Rest + ")"
	r1, e1 := mon.Compile(p1, base, 0)
	r2, e2 := mon.Compile(p2, base, 0)
	if e1 != nil || e2 != nil {
		if e1 != nil && e2 != nil {
			return "", 0, p1
		}
		return fmt.Sprintf("%q compiles: %v, %q compiles: %v", p1, e1 == nil, p2, e2 == nil), 0, p1
	}
	r1.MatchTimeout, r2.MatchTimeout = c18Timeout, c18Timeout
	if g1, g2 := groupMapOf(r1), groupMapOf(r2); g1 != g2 {
		return fmt.Sprintf("group maps differ: %q -> %s, %q -> %s (the scope (?%s..) must end at its parenthesis)", p1, g1, p2, g2, ls), 0, p1
	}
	for _, rest := range c18RestTexts {
		for _, head := range []string{c.text, strings.ToUpper(c.text)} {
			in := head + rest
			if flip {
				in = "w" + rest + "\n" + in
			}
			m1, err1 := r1.FindStringMatch(in)
			m2, err2 := r2.FindStringMatch(in)
			if err1 != nil || err2 != nil {
				continue
			}
			compared++
			if o1, o2 := mon.ObsAll(m1), mon.ObsAll(m2); o1 != o2 {
				return fmt.Sprintf("on %q: %q gives %s but %q gives %s: the options switched on inside the group reach the text after it", in, p1, o1, p2, o2), compared, p1
			}
		}
	}
	return "", compared, p1
}

func replayC18ScopeRest(w core.Witness) string {
	idx, _ := w.Args["construct"].(float64)
	o, _ := w.Args["option_set"].(float64)
	kind, _ := w.Args["scope_kind"].(float64)
	if int(idx) < 0 || int(idx) >= len(c18Constructs) {
		return "unknown construct"
	}
	d, _, _ := scopeRestLaw(c18Constructs[int(idx)], int(o), int(kind), w.Options, false)
	if d == "" {
		d, _, _ = scopeRestLaw(c18Constructs[int(idx)], int(o), int(kind), w.Options, true)
	}
	return d
}

// runC18ScopeRest walks constructs x 31 option sets x 3 scope spellings (deterministic).
func runC18ScopeRest(r *core.Run) {
	n := len(c18Constructs) * 31 * 3
	r.Parallel(n, func(i int, l *core.Local) {
		ci, o, kind := i/(31*3), (i/3)%31+1, i%3
		c := c18Constructs[ci]
		oset := 0
		for b, lt := range c18Letters {
			if o&(1<<b) != 0 {
				oset |= int(lt.opt)
			}
		}
		bases := []int{0}
		if c.re2 {
			bases = []int{int(regexp2.RE2)}
		} else if rand.New(rand.NewSource(int64(i))).Intn(3) == 0 {
			bases = append(bases, int(regexp2.RE2))
		}
		for _, base := range bases {
			for _, flip := range []bool{false, true} {
				d, compared, p1 := scopeRestLaw(c, oset, kind, base, flip)
				l.Eval(1)
				l.Count("law_scope-rest", int64(compared))
				if compared > 0 {
					l.Count("scope_rest_patterns", 1)
				}
				if d != "" {
					l.Violate(core.Violation{Kind: "option-scope-leaks", Detail: d, Witness: core.Witness{Kind: "scope-rest", Pattern: p1, Options: base, Args: map[string]any{"construct": ci, "option_set": oset, "scope_kind": kind}}})
					return
				}
			}
		}
	})
}
