package main

import (
	"crypto/sha1"
	"encoding/hex"
	"fmt"
	"math/rand"
	"runtime"
	"runtime/debug"
	"strings"
	"time"

	regexp2 "github.com/dlclark/regexp2/v2"
	"github.com/dlclark/regexp2/v2/compat"

	"verif/internal/core"
	"verif/internal/mon"
)

// C12: every call in a history returns what the same call returns on a freshly
// compiled Regexp.

func init() {
	register("C12", runC12, replayC12)
}

type hPattern struct {
	src     string
	opts    regexp2.RegexOptions
	extra   []regexp2.CompileOption
	timeout time.Duration
}

var hPatterns = []hPattern{
	0: {src: `(a+)(b+)?c`},                                                                               // bool-only eligible, captures stripped in the quick program
	1: {src: `^(?:(?<o>\()|(?<-o>\))|[^()])*(?(o)(?!))$`},                                                // balancing groups
	2: {src: `(\w+) \1`},                                                                                 // back-reference (capture must survive in the quick program)
	3: {src: `\d+`, opts: regexp2.RightToLeft},                                                           // right-to-left
	4: {src: `(?:a|b|ab)*c`, extra: []regexp2.CompileOption{regexp2.OptionMaxBacktrackingStackSize(64)}}, // hits the stack limit on long inputs
	5: {src: `(x+x+)+y`, timeout: 25 * time.Millisecond},                                                 // catastrophic: times out
	6: {src: `[a-f]+\d`, opts: regexp2.IgnoreCase},                                                       // class with ASCII bitmap
	7: {src: `needle\w+`},                                                                                // raw-string prefix filter
	8: {src: `(?<k>\w+)=(?<v>[^;]*);?`, extra: []regexp2.CompileOption{regexp2.OptionMaxCachedReplacerDataEntries(4)}},
	// one pattern per candidate-search mode, so that lazily built or shared search state is exercised
	9:  {src: `\s+end\w`},                                                                      // literal after a leading loop
	10: {src: `\w+@[a-z]+\.(?:com|org)`},                                                       // landmark chain
	11: {src: `(?:foo|bar|bazz)\d`, extra: []regexp2.CompileOption{regexp2.OptionIsCodeGen()}}, // leading strings (code-gen analysis)
	12: {src: `..xy[ab]`},                                                                      // fixed-distance string
	13: {src: `[ab][cd][ef]z`},                                                                 // fixed-distance sets
	14: {src: `[a-c]\d{2}$`},                                                                   // trailing anchor, fixed length
	15: {src: `(x+x+)+y`, timeout: 70 * time.Millisecond},                                      // a second timeout value: concurrent deadlines differ
	16: {src: `héllo\s\w+`, opts: regexp2.IgnoreCase},                                          // ordinal-ignore-case prefix / Boyer-Moore with a non-ASCII rune
	17: {src: `(?<5>a)(b)(?<n>c)(?<10>d)`},                                                     // sparse group numbers: the lookup tables
	18: {src: `(x+x+)+y`},                                                                      // compiled with the default timeout; one operation sets MatchTimeout later
}

func compileH(i int) *regexp2.Regexp {
	p := hPatterns[i]
	co := append([]regexp2.CompileOption{p.opts}, p.extra...)
	re := regexp2.MustCompile(p.src, co...)
	if p.timeout > 0 {
		re.MatchTimeout = p.timeout
	}
	return re
}

// sized inputs crossing the pooled-buffer size classes (1K / 4K / 16K runes)
func sizedInput(n int, tail string) string {
	var sb strings.Builder
	for sb.Len() < n {
		sb.WriteString("zq ")
	}
	s := sb.String()[:n]
	return s + tail
}

type hOp struct {
	name string
	pat  int
	run  func(re *regexp2.Regexp) string
	// seqOnly: not for concurrent use on a shared Regexp (the operation writes Regexp.MatchTimeout,
	// which the documentation does not allow while matches run)
	seqOnly bool
}

func sum(s string) string {
	h := sha1.Sum([]byte(s))
	return fmt.Sprintf("len=%d sha=%s", len(s), hex.EncodeToString(h[:6]))
}

func resErr(err error) string { return "error:" + mon.ErrClass(err) }

func opMatchString(in string) func(*regexp2.Regexp) string {
	return func(re *regexp2.Regexp) string {
		b, err := re.MatchString(in)
		if err != nil {
			return resErr(err)
		}
		return fmt.Sprint(b)
	}
}
func opMatchRunes(in string) func(*regexp2.Regexp) string {
	r := []rune(in)
	return func(re *regexp2.Regexp) string {
		b, err := re.MatchRunes(r)
		if err != nil {
			return resErr(err)
		}
		return fmt.Sprint(b)
	}
}
func opFindString(in string) func(*regexp2.Regexp) string {
	return func(re *regexp2.Regexp) string {
		m, err := re.FindStringMatch(in)
		if err != nil {
			return resErr(err)
		}
		if m == nil {
			return "nil"
		}
		return mon.ObsAll(m) + " " + sum(m.String())
	}
}
func opFindRunes(in string) func(*regexp2.Regexp) string {
	r := []rune(in)
	return func(re *regexp2.Regexp) string {
		m, err := re.FindRunesMatch(r)
		if err != nil {
			return resErr(err)
		}
		if m == nil {
			return "nil"
		}
		return mon.ObsAll(m) + " " + sum(m.String())
	}
}
func opChain(in string, limit int) func(*regexp2.Regexp) string {
	return func(re *regexp2.Regexp) string {
		var sb strings.Builder
		m, err := re.FindStringMatch(in)
		for k := 0; m != nil && err == nil && k < limit; k++ {
			sb.WriteString(mon.ObsAll(m))
			sb.WriteByte('|')
			m, err = re.FindNextMatch(m)
		}
		if err != nil {
			return resErr(err)
		}
		return sum(sb.String())
	}
}
func opFindAll(in string, n int) func(*regexp2.Regexp) string {
	return func(re *regexp2.Regexp) string {
		v, err := re.FindAllStringIndex(in, n)
		if err != nil {
			return resErr(err)
		}
		return sum(fmt.Sprint(v))
	}
}
func opReplace(in, repl string) func(*regexp2.Regexp) string {
	return func(re *regexp2.Regexp) string {
		v, err := re.Replace(in, repl, -1, -1)
		if err != nil {
			return resErr(err)
		}
		return sum(v)
	}
}
func opReplaceFunc(in string) func(*regexp2.Regexp) string {
	return func(re *regexp2.Regexp) string {
		v, err := re.ReplaceFunc(in, func(m regexp2.Match) string { return "<" + fmt.Sprint(m.GroupCount(), m.RuneIndex) + ">" }, -1, -1)
		if err != nil {
			return resErr(err)
		}
		return sum(v)
	}
}
func opSplit(in string) func(*regexp2.Regexp) string {
	return func(re *regexp2.Regexp) string {
		v, err := re.Split(in, -1)
		if err != nil {
			return resErr(err)
		}
		return sum(strings.Join(v, "\x00"))
	}
}

var hOps []hOp

func init() {
	add := func(name string, pat int, f func(*regexp2.Regexp) string) {
		hOps = append(hOps, hOp{name: name, pat: pat, run: f})
	}
	defer func() {
		// inputs in the larger buffer size classes (the pools are size-classed up to 64 Ki elements and beyond)
		big20, big70 := sizedInput(20000, " aabc"), sizedInput(70000, " abbc aac")
		add("bool 20000", 0, opMatchString(big20))
		add("findall 20000", 0, opFindAll(big20, -1))
		add("replace 70000", 0, opReplace(big70, "<$1>"))
		add("bool 70000", 0, opMatchString(big70))
		// two different inputs of the same size class (above 32 KiB) with different match counts
		s33 := strings.Repeat("needleA needleBB xx ", 1700)[:33000]
		t33 := strings.Repeat("xx needleC yy zzzz ", 1800)[:33000]
		add("findall S33000", 7, opFindAll(s33, -1))
		add("replace T33000", 7, opReplace(t33, "[$&]"))
		add("bool S33000", 7, opMatchString(s33))
		add("findall T33000", 7, opFindAll(t33, -1))
		// the lookup tables of a Regexp with sparse group numbers
		add("group tables", 17, func(re *regexp2.Regexp) string {
			return fmt.Sprint(re.GetGroupNumbers(), re.GetGroupNames(), re.GroupNameFromNumber(5), re.GroupNameFromNumber(10), re.GroupNameFromNumber(1), re.GroupNameFromNumber(7),
				re.GroupNumberFromName("n"), re.GroupNumberFromName("5"), re.GroupNumberFromName("x"))
		})
		add("sparse find+groups", 17, func(re *regexp2.Regexp) string {
			m, err := re.FindStringMatch("xabcdx")
			if err != nil || m == nil {
				return fmt.Sprint("nil ", err)
			}
			out := mon.ObsAll(m)
			for _, n := range []int{10, 5, 1, 2, 3, 7} {
				if g := m.GroupByNumber(n); g != nil {
					out += fmt.Sprintf(" %d=%s", n, g.String())
				} else {
					out += fmt.Sprintf(" %d=nil", n)
				}
			}
			return out
		})
		add("sparse replace", 17, opReplace("abcd abcd", "${10}${n}$5$1"))
		// MatchTimeout set after the Regexp has been used under the default timeout
		add("default-timeout quick", 18, opMatchString("xxy xxxy"))
		hOps = append(hOps, hOp{name: "timeout set later", pat: 18, seqOnly: true, run: func(re *regexp2.Regexp) string {
			re.MatchTimeout = 40 * time.Millisecond
			defer func() { re.MatchTimeout = regexp2.DefaultMatchTimeout }()
			_, err := re.MatchString(strings.Repeat("x", 36) + "!")
			if err != nil {
				return resErr(err)
			}
			return "no error"
		}})
	}()
	small := "xx aab c aaabbc aac"
	add("bool aabc", 0, opMatchString(small))
	add("bool-runes aabc", 0, opMatchRunes(small))
	add("find aabc", 0, opFindString(small))
	add("find-runes aabc", 0, opFindRunes(small))
	add("find no-match", 0, opFindString("aab aab aab"))
	add("chain aabc", 0, opChain(small+" abc ac", 100))
	add("chain abandoned", 0, opChain(small+" abc ac", 1))
	add("find 17000 runes, match at the end", 0, opFindString(sizedInput(17000, "aabbc")))
	add("bool 4200 runes, no match", 0, opMatchString(sizedInput(4200, "aab")))
	add("find 1100 runes", 0, opFindString(sizedInput(1100, "ac")))
	add("find 10 runes after long ones", 0, opFindString("zq zq zq z"))
	add("balanced ok", 1, opFindString("(a(b)c)(d)"))
	add("balanced bad", 1, opFindString("(a(b)c(d)"))
	add("balanced bool", 1, opMatchString("((x))"))
	add("backref bool", 2, opMatchString("say hello hello world"))
	add("backref find", 2, opFindString("say hello hello world"))
	add("backref no-match", 2, opMatchRunes("one two three"))
	add("rtl find", 3, opFindString("a12 b345 c6"))
	add("rtl chain", 3, opChain("a12 b345 c6", 100))
	add("rtl replace", 3, opReplace("a12 b345 c6", "<$&>"))
	add("stack-limit hit", 4, opFindString(strings.Repeat("ab", 400)+"d"))
	add("stack-limit not hit", 4, opFindString("ababc"))
	add("stack-limit bool", 4, opMatchString(strings.Repeat("ab", 400)+"d"))
	add("timeout", 5, opFindString(strings.Repeat("x", 40)+"!"))
	add("timeout bool", 5, opMatchRunes(strings.Repeat("x", 40)+"!"))
	add("no timeout", 5, opFindString("xxy"))
	add("ic class", 6, opFindString("zzAbCdEf7 ff9"))
	add("ic class bool", 6, opMatchString("ZZZ FE1"))
	add("ic findall", 6, opFindAll("a1 B2 c3 D4 e5", -1))
	add("prefix find", 7, opFindString("hay hay needleX hay"))
	add("prefix miss", 7, opMatchString("hay hay needl hay"))
	add("prefix 4200", 7, opFindString(sizedInput(4200, "needleYY")))
	add("kv replace 1", 8, opReplace("a=1;b=2;c=3", "${v}:${k},"))
	add("kv replace 2", 8, opReplace("a=1;b=2;c=3", "[$1|$2]"))
	for k := 0; k < 6; k++ {
		add(fmt.Sprintf("kv replace many %d", k), 8, opReplace("k=v;x=y", fmt.Sprintf("<%d:$&:${k}>", k)))
	}
	add("kv replacefunc", 8, opReplaceFunc("a=1;b=2;c=3"))
	add("kv split", 8, opSplit("a=1;b=2;c=3"))
	add("kv replace 17000", 8, opReplace(sizedInput(17000, "k=v;"), "$2=$1"))
	add("kv findall", 8, opFindAll("a=1;b=2;c=3", 2))
	// start offsets, right-to-left drivers, the adapter, byte ranges of iterated matches
	add("find starting mid", 0, func(re *regexp2.Regexp) string {
		m, err := re.FindStringMatchStartingAt("aabc aaabbc xaac", 5)
		if err != nil {
			return resErr(err)
		}
		return mon.ObsAll(m)
	})
	add("rtl split", 3, opSplit("a12 b345 c6"))
	add("rtl replacefunc", 3, opReplaceFunc("a12 b345 c6 é7"))
	add("rtl find starting mid", 3, func(re *regexp2.Regexp) string {
		m, err := re.FindStringMatchStartingAt("a12 b345 c6", 6)
		if err != nil {
			return resErr(err)
		}
		return mon.ObsAll(m)
	})
	add("compat submatch index", 8, func(re *regexp2.Regexp) string {
		var out string
		in, bad := guardCompat(func() { out = fmt.Sprint(compat.Wrap(re).FindAllStringSubmatchIndex("é=1;b=λ;c=3", -1)) })
		if in {
			return "error:resource"
		}
		if bad != "" {
			return bad
		}
		return out
	})
	add("chain byte ranges", 8, func(re *regexp2.Regexp) string {
		var sb strings.Builder
		m, err := re.FindStringMatch("é=1;b=λλ;c=3")
		for m != nil && err == nil {
			for _, g := range m.Groups() {
				bi, bl := g.ByteRange()
				fmt.Fprintf(&sb, "%s:%d+%d ", g.Name, bi, bl)
			}
			m, err = re.FindNextMatch(m)
		}
		if err != nil {
			return resErr(err)
		}
		return sb.String()
	})
	add("after-loop find", 9, opFindString("x  \t endy end  endz"))
	add("after-loop bool", 9, opMatchString("the   end."))
	add("after-loop findall", 9, opFindAll("  endA   endB", -1))
	add("landmark find", 10, opFindString("mail bob@example.org or al@x.com"))
	add("landmark replace", 10, opReplace("mail bob@example.org or al@x.com", "<$&>"))
	add("strings find", 11, opFindString("xx bazz7 foo1 bar"))
	add("strings bool", 11, opMatchString("nothing here bazz"))
	add("fixed-string find", 12, opFindString("aaxyxy abxyb"))
	add("fixed-sets find", 13, opFindString("acez bdfz adez"))
	add("fixed-sets bool 4200", 13, opMatchString(sizedInput(4200, "bcfz")))
	add("trailing-anchor find", 14, opFindString("a12 b34\nc56"))
	add("timeout 70ms", 15, opFindString(strings.Repeat("x", 40)+"!"))
	add("ic prefix find", 16, opFindString("say HÉLLO world and héLLo you"))
	add("ic prefix chain", 16, opChain("say HÉLLO world and héLLo you", 100))
	// inputs around the length at which the 64-slot limit of pattern 4 starts to fail (found at start-up)
	thr := 1
	for ; thr < 400; thr++ {
		if strings.HasPrefix(opFindString(strings.Repeat("ab", thr)+"c")(compileH(4)), "error:") {
			break
		}
	}
	for d := -3; d <= 3; d++ {
		if n := thr + d; n > 0 {
			in := strings.Repeat("ab", n) + "c"
			add(fmt.Sprintf("stack-limit find near threshold %+d", d), 4, opFindString(in))
			if d%2 == 0 {
				add(fmt.Sprintf("stack-limit bool near threshold %+d", d), 4, opMatchString(in))
			}
		}
	}
	add("balanced replace", 1, opReplace("(a(b)c)(d)", "[$&|${o}]"))
	add("backref replace 4200", 2, opReplace(sizedInput(4200, " go go"), "<$1>"))
}

// abortSweep: calls that are aborted by the stack limit at many different depths (inside
// look-behind, look-ahead, atomic groups, lazy loops), each followed by ordinary calls on the
// same Regexp, which must answer like a fresh one. Limits are swept so that the abort point
// moves through the program.
var abortPatterns = []struct{ src, long, short string }{
	{`(?<=^(?:a\w?)*)\wx`, strings.Repeat("ab", 30) + "ax", "ax bx"},
	{`(?=(?:a\w?)*$)\w+x?`, strings.Repeat("ab", 40), "ab"},
	{`(?>(?:a|ab)*)(c)?\b`, strings.Repeat("ab", 50) + "c", "abc ab"},
	{`^(?:a|b|ab)*?c(?<=(a|b)*c)`, strings.Repeat("ab", 40) + "c", "abc"},
	{`(\w)(?:\1|b)*?(?!a)`, strings.Repeat("a", 90) + "b", "aab"},
}

func abortSweep(l *core.Local) {
	for pi, ap := range abortPatterns {
		// expected answers from Regexps that never ran the long input
		type ans struct{ find, boolean, repl string }
		exp := func(limit int) ans {
			re := regexp2.MustCompile(ap.src, regexp2.OptionMaxBacktrackingStackSize(limit))
			return ans{opFindString(ap.short)(re), opMatchString(ap.short)(re), opReplace(ap.short, "-")(re)}
		}
		for limit := 24; limit <= 160; limit++ {
			want := exp(limit)
			for order := 0; order < 2; order++ {
				re := regexp2.MustCompile(ap.src, regexp2.OptionMaxBacktrackingStackSize(limit))
				var first string
				if order == 0 {
					first = opFindString(ap.long)(re)
				} else {
					first = opMatchString(ap.long)(re)
				}
				l.Eval(1)
				if strings.HasPrefix(first, "error:stacklimit") {
					l.Count("abort_sweep_aborted_first_calls", 1)
				}
				got := ans{opFindString(ap.short)(re), opMatchString(ap.short)(re), opReplace(ap.short, "-")(re)}
				l.Nontrivial("abort", fmt.Sprint(pi, limit, order))
				if got != want {
					l.Violate(core.Violation{Kind: "result-depends-on-history", Detail: fmt.Sprintf("pattern %q with stack limit %d: after a call on the long input (result %s) the calls on %q return %+v, a fresh Regexp returns %+v", ap.src, limit, first, ap.short, got, want),
						Witness: core.Witness{Pattern: ap.src, Args: map[string]any{"abort_sweep": pi, "limit": limit, "order": order}}})
					return
				}
			}
		}
	}
}

// runHistory executes the op indices on fresh shared Regexps and compares each
// step with the expected (fresh-Regexp) result.
func runHistory(h []int, expected []string) (step int, got string) {
	shared := map[int]*regexp2.Regexp{}
	for k, oi := range h {
		op := hOps[oi]
		re := shared[op.pat]
		if re == nil {
			re = compileH(op.pat)
			shared[op.pat] = re
		}
		if g := op.run(re); g != expected[oi] {
			if g == "error:timeout" && op.name == "no timeout" {
				// a quick timed call descheduled past its 25 ms deadline on a loaded machine
				// (wall-clock semantics, not state leakage): try the step once more
				if g = op.run(re); g == expected[oi] {
					continue
				}
			}
			return k, g
		}
	}
	return -1, ""
}

func expectedResults() []string {
	exp := make([]string, len(hOps))
	for i, op := range hOps {
		exp[i] = op.run(compileH(op.pat))
	}
	return exp
}

func replayC12(w core.Witness) string {
	regexp2.SetTimeoutCheckPeriod(time.Millisecond)
	exp := expectedResults()
	raw, _ := w.Args["history"].([]any)
	var h []int
	for _, v := range raw {
		if f, ok := v.(float64); ok && int(f) < len(hOps) {
			h = append(h, int(f))
		}
	}
	old := debug.SetGCPercent(-1)
	defer debug.SetGCPercent(old)
	if step, got := runHistory(h, exp); step >= 0 {
		return fmt.Sprintf("step %d (%s) returned %s, a fresh Regexp returns %s", step, hOps[h[step]].name, got, exp[h[step]])
	}
	return ""
}

func runC12(r *core.Run) int {
	regexp2.SetTimeoutCheckPeriod(time.Millisecond)
	r.ReplayKnown(replayC12)
	// expected results: computed twice on fresh Regexps; an op whose fresh result is not
	// stable (a timed op near its deadline) would make every verdict meaningless
	exp := expectedResults()
	exp2 := expectedResults()
	for i := range exp {
		if exp[i] != exp2[i] {
			fmt.Printf("INCONCLUSIVE property=C12 the fresh result of op %q is not stable on this machine: %s vs %s\n", hOps[i].name, exp[i], exp2[i])
			return 3
		}
	}
	n := len(hOps)
	var histories [][]int
	for a := 0; a < n; a++ {
		for b := 0; b < n; b++ {
			histories = append(histories, []int{a, b})
		}
	}
	nPairs := len(histories)
	rng := rand.New(rand.NewSource(r.Seed*252097800 + 12))
	if r.Quick() {
		for k := 0; k < 6000; k++ {
			histories = append(histories, []int{rng.Intn(n), rng.Intn(n), rng.Intn(n)})
		}
	} else {
		for a := 0; a < n; a++ {
			for b := 0; b < n; b++ {
				for c := 0; c < n; c++ {
					histories = append(histories, []int{a, b, c})
				}
			}
		}
	}
	nRandom := r.Pick(300, 5000)
	for k := 0; k < nRandom; k++ {
		h := make([]int, 50)
		for j := range h {
			h[j] = rng.Intn(n)
		}
		histories = append(histories, h)
	}
	// directed histories: every operation of one pattern in order, twice, then backwards and
	// interleaved - more distinct replacement strings than any cache holds, each met again later
	// (the random histories thin out as the alphabet grows)
	{
		byPat := map[int][]int{}
		for i, op := range hOps {
			byPat[op.pat] = append(byPat[op.pat], i)
		}
		for p := range hPatterns {
			ops := byPat[p]
			if len(ops) < 2 {
				continue
			}
			h := append(append([]int(nil), ops...), ops...)
			for i := len(ops) - 1; i >= 0; i-- {
				h = append(h, ops[i])
			}
			for i := range ops {
				h = append(h, ops[i], ops[(i+len(ops)/2)%len(ops)])
			}
			histories = append(histories, h)
		}
	}
	// operations just below / above the stack-limit threshold of pattern 4, for bool and find calls:
	// a history-dependent stack budget shows only within a few input lengths of the threshold
	{
		ml := r.Main()
		abortSweep(ml)
		ml.Done()
	}
	r.Workers = 4
	for pass := 0; pass < 2; pass++ {
		gcOff := pass == 0
		old := 100
		if gcOff {
			// with the collector off sync.Pool really hands the same runner / buffer back
			old = debug.SetGCPercent(-1)
		}
		share := len(histories)
		if !gcOff {
			share = len(histories) / 3
		}
		r.Parallel(share, func(i int, l *core.Local) {
			h := histories[i]
			if gcOff && i%64 == 0 {
				runtime.GC()
			}
			step, got := runHistory(h, exp)
			l.Eval(int64(len(h)))
			if gcOff {
				l.Count("steps_gc_off", int64(len(h)))
			} else {
				l.Count("steps_gc_on", int64(len(h)))
			}
			for _, oi := range h {
				l.Count("op_pattern_"+fmt.Sprint(hOps[oi].pat), 1)
			}
			key := fmt.Sprint(h)
			if len(h) > 3 {
				key = fmt.Sprint(h[:3], len(h), i)
			}
			l.Nontrivial(key)
			if i == 0 || i == nPairs+1 {
				names := []string{}
				for _, oi := range h {
					names = append(names, hOps[oi].name)
				}
				l.Sample(map[string]any{"history": names})
			}
			if step >= 0 {
				// minimal replay: the failing step with up to three predecessors
				from := step - 3
				if from < 0 {
					from = 0
				}
				short := h[from : step+1]
				names := []string{}
				for _, oi := range short {
					names = append(names, hOps[oi].name)
				}
				l.Violate(core.Violation{Kind: "result-depends-on-history", Detail: fmt.Sprintf("after %v the call %q on pattern %q returned %s, a freshly compiled Regexp returns %s", names[:len(names)-1], hOps[h[step]].name, hPatterns[hOps[h[step]].pat].src, got, exp[h[step]]),
					Observed: got, Expected: exp[h[step]],
					Witness: core.Witness{Pattern: hPatterns[hOps[h[step]].pat].src, Args: map[string]any{"history": short, "history_names": names, "gc_off": gcOff}}})
			}
		})
		if gcOff {
			debug.SetGCPercent(old)
			runtime.GC()
		}
	}
	fresh := map[string]string{}
	for i, op := range hOps {
		fresh[op.name] = exp[i]
	}
	r.Extras["fresh_results"] = fresh
	r.Extras["exhaustive"] = false
	r.Extras["bounds"] = map[string]any{"operations": n, "all_ordered_pairs": nPairs, "triples": len(histories) - nPairs - nRandom, "all_triples": !r.Quick(), "random_histories_of_50": nRandom, "passes": "GC off (pooled objects really reused), then a third of the histories with GC on"}
	return r.Finish(
		"operation alphabet of "+fmt.Sprint(n)+" representative calls on 9 shared Regexps (bool-only eligible, balancing groups, back-reference, RightToLeft, a 64-slot stack limit that is hit, a 25 ms timeout that fires, IgnoreCase class, prefix-filtered literal, named groups with a 4-entry replacement cache; inputs of 10 / 1,100 / 4,200 / 17,000 runes; more distinct replacement strings than the cache holds); histories = every ordered pair, triples (quick: 6,000 random; thorough: all), and random histories of 50 steps, each on freshly compiled shared Regexps while the process-wide pools persist; every step is compared with the same call on a fresh Regexp; evaluation = one step; non-trivial = distinct history",
		[]string{"fresh-Regexp results are computed twice up front and must be stable", "timed operations are clearly catastrophic (40 x's, 25 ms) or clearly quick"},
		map[string]int64{"evaluations": 20000, "distinct_nontrivial": 2000, "steps_gc_off": 10000, "steps_gc_on": 3000})
}
