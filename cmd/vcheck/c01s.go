package main

import (
	"fmt"
	"math/rand"
	"slices"
	"strings"

	regexp2 "github.com/dlclark/regexp2/v2"

	"verif/internal/core"
	"verif/internal/mon"
)

// C01 / C15, literal sequences over ALL rune values a rune slice can hold: surrogate code points,
// U+FFFD, U+FFFF, astral runes. The pattern \Azz(?:(P1)|(P2))zz\z, where P1 and P2 are
// concatenations of \uXXXX{n} items with different expansions, must match "zz" + expansion(P2) +
// "zz" with group 2 on the expansion and group 1 empty - and must not match that text with its
// surrogates replaced by U+FFFD (a literal that went through a Go string on its way into the
// program matches exactly that). The expected result needs no specification.

type litPiece struct {
	r rune
	n int
}

func litSeq(rng *rand.Rand) []litPiece {
	pool := []rune{0xD800, 0xD801, 0xDBFF, 0xDC00, 0xDFFF, 0xFFFD, 0xFFFF, 0x10000, 'a', 'b', 0xE9}
	var out []litPiece
	for k := 1 + rng.Intn(3); k > 0; k-- {
		n := 1
		switch rng.Intn(5) {
		case 0:
			n = 2 + rng.Intn(3)
		case 1:
			n = []int{8, 31, 32, 33, 63, 64, 65, 70}[rng.Intn(8)]
		}
		out = append(out, litPiece{pool[rng.Intn(len(pool))], n})
	}
	return out
}

func litPattern(seq []litPiece, rng *rand.Rand) string {
	var sb strings.Builder
	for _, p := range seq {
		if p.r > 0xFFFF {
			fmt.Fprintf(&sb, `\x{%X}`, p.r)
		} else {
			fmt.Fprintf(&sb, `\u%04X`, p.r)
		}
		if p.n > 1 {
			fmt.Fprintf(&sb, "{%d}", p.n)
			if rng.Intn(4) == 0 {
				sb.WriteString("?")
			}
		}
	}
	return sb.String()
}

func litExpand(seq []litPiece) []rune {
	var out []rune
	for _, p := range seq {
		for i := 0; i < p.n; i++ {
			out = append(out, p.r)
		}
	}
	return out
}

func literalRunesLaw(src string, opts int, t1, t2 []rune) string {
	re, err := mon.Compile(src, opts, 0)
	if err != nil {
		return fmt.Sprintf("%q is rejected: %v", src, err)
	}
	re.MatchTimeout = shortTimeout
	in := append(append([]rune("zz"), t2...), 'z', 'z')
	m, err := re.FindRunesMatch(in)
	if err != nil {
		return ""
	}
	want := fmt.Sprintf("0:(0,%d);1:;2:(2,%d);", len(in), len(t2))
	if got := mon.ObsAll(m); got != want {
		return fmt.Sprintf("%q on %U gives %s, expected %s (the second branch spelled out)", src, in, got, want)
	}
	isSur := func(r rune) bool { return r >= 0xD800 && r <= 0xDFFF }
	sub := append([]rune(nil), in...)
	changed := false
	for i, r := range sub {
		if isSur(r) {
			sub[i], changed = 0xFFFD, true
		}
	}
	if changed {
		// the text with U+FFFD in place of its surrogates matches only if the FIRST branch happens to spell it
		exp1 := append(append([]rune("zz"), t1...), 'z', 'z')
		if m2, err := re.FindRunesMatch(sub); err == nil && m2 != nil && !slices.Equal(exp1, sub) {
			return fmt.Sprintf("%q also matches %U (the surrogates of the text replaced by U+FFFD): %s", src, sub, mon.ObsAll(m2))
		}
	}
	return ""
}

func replayLiteralRunes(w core.Witness) string {
	toRunes := func(v any) []rune {
		var out []rune
		if a, ok := v.([]any); ok {
			for _, x := range a {
				if f, ok := x.(float64); ok {
					out = append(out, rune(f))
				}
			}
		}
		return out
	}
	return literalRunesLaw(w.Pattern, w.Options, toRunes(w.Args["branch1"]), toRunes(w.Args["branch2"]))
}

func runLiteralRunes(r *core.Run, rtl bool) {
	n := r.Pick(1500, 30000)
	base := rand.New(rand.NewSource(r.Seed*2147483647 + 101)).Int63()
	r.Parallel(n, func(i int, l *core.Local) {
		rng := rand.New(rand.NewSource(base + int64(i)*1000003))
		s1, s2 := litSeq(rng), litSeq(rng)
		t1, t2 := litExpand(s1), litExpand(s2)
		if slices.Equal(t1, t2) {
			return // the first branch would take the text
		}
		src := `\Azz(?:(` + litPattern(s1, rng) + `)|(` + litPattern(s2, rng) + `))zz\z`
		opts := 0
		if rtl {
			opts = int(regexp2.RightToLeft)
		}
		if rng.Intn(4) == 0 {
			opts |= int(regexp2.IgnoreCase)
		}
		l.Eval(1)
		l.Count("literal_rune_sequences", 1)
		if d := literalRunesLaw(src, opts, t1, t2); d != "" {
			toInts := func(t []rune) []int {
				var o []int
				for _, x := range t {
					o = append(o, int(x))
				}
				return o
			}
			l.Violate(core.Violation{Kind: "literal-sequence", Detail: d, Witness: core.Witness{Kind: "literal-runes", Pattern: src, Options: opts, Args: map[string]any{"branch1": toInts(t1), "branch2": toInts(t2)}}})
		}
	})
}
