package main

import (
	"encoding/json"
	"fmt"
	"math/rand"

	regexp2 "github.com/dlclark/regexp2/v2"

	"verif/internal/core"
	"verif/internal/gen"
	"verif/internal/mon"
	"verif/internal/ref"
)

// C20: under IgnoreCase the outcome is invariant under case flips of the input
// and of the pattern's letters.

func init() {
	register("C20", runC20, replayC20)
}

func c20Profile(rng *rand.Rand) *gen.Profile {
	var letters []rune
	k := 2 + rng.Intn(4)
	for len(letters) < k {
		i := rng.Intn(len(gen.PairLower))
		if i >= 24 && rng.Intn(3) != 0 {
			continue // mostly ASCII, some Latin-1 / Greek / Cyrillic
		}
		if rng.Intn(3) == 0 {
			letters = append(letters, gen.PairUpper[i])
		} else {
			letters = append(letters, gen.PairLower[i])
		}
	}
	if rng.Intn(3) == 0 {
		letters = append(letters, []rune("1_ -")[rng.Intn(4)])
	}
	return &gen.Profile{
		Depth: 1 + rng.Intn(3), MaxKids: 4, Letters: letters,
		Dot: true, Classes: true, Esc: rng.Intn(2) == 0, Subtract: true, PairRanges: true,
		Anchors: []string{"^", "$", `\b`},
		Groups:  true, Named: rng.Intn(3) == 0, NonCap: true,
		LookAhead: rng.Intn(3) == 0, LookBehind: rng.Intn(3) == 0, Atomic: rng.Intn(3) == 0, Backrefs: true,
		Lazy: true, Nullable: rng.Intn(4) == 0, RepeatP: 25,
	}
}

func flipRunes(in []rune, rng *rand.Rand) []rune {
	out := append([]rune(nil), in...)
	for i, r := range out {
		if gen.IsPairLetter(r) && rng.Intn(2) == 0 {
			out[i] = gen.OtherCase(r)
		}
	}
	return out
}

// flipPattern flips the case of random literal letters, class members and both
// endpoints of letter ranges.
func flipPattern(root *gen.Node, rng *rand.Rand) *gen.Node {
	c := root.Clone()
	var fix func(n *gen.Node)
	fix = func(n *gen.Node) {
		if n.K == gen.KLit && gen.IsPairLetter(n.R) && rng.Intn(2) == 0 {
			n.R = gen.OtherCase(n.R)
		}
		if n.K == gen.KClass {
			for i := range n.Items {
				it := &n.Items[i]
				switch it.T {
				case "r":
					if gen.IsPairLetter(it.Lo) && rng.Intn(2) == 0 {
						it.Lo = gen.OtherCase(it.Lo)
					}
				case "range":
					// (not the wide ranges added below, Sp 15: flipping both ends of a range that spans
					// several scripts gives a different set of non-letters, e.g. with and without U+00F7)
					if it.Sp != 15 && gen.IsPairLetter(it.Lo) && gen.IsPairLetter(it.Hi) && rng.Intn(2) == 0 {
						lo, hi := gen.OtherCase(it.Lo), gen.OtherCase(it.Hi)
						if lo <= hi {
							it.Lo, it.Hi = lo, hi
						}
					}
				}
			}
			if n.Sub != nil {
				fix(n.Sub)
			}
		}
		for _, k := range n.Kids {
			fix(k)
		}
	}
	fix(c)
	return c
}

// caseObs is the outcome up to case: positions of all captures.
func caseObs(re *regexp2.Regexp, in []rune, useString bool) (string, string) {
	var m *regexp2.Match
	var err error
	if useString {
		m, err = re.FindStringMatch(string(in))
	} else {
		m, err = re.FindRunesMatch(in)
	}
	if err != nil {
		if mon.ResourceErr(err) {
			return "", "engine-" + mon.ErrClass(err)
		}
		return "error:" + err.Error(), ""
	}
	return mon.ObsAll(m), ""
}

type c20Case struct {
	ast  *gen.Node
	opts int
	src  string
	re   *regexp2.Regexp
}

func buildC20(ast *gen.Node, opts int) *c20Case {
	p := gen.Finish(ast, envOf(opts), false, gen.PrintOpts{})
	if p == nil {
		return nil
	}
	re, err := mon.Compile(p.Src, opts, 0)
	if err != nil {
		return nil
	}
	re.MatchTimeout = shortTimeout
	return &c20Case{ast: ast, opts: opts, src: p.Src, re: re}
}

func replayC20(w core.Witness) string {
	if _, ok := w.Args["class_name"]; ok {
		return replayC20Named(w)
	}
	if _, ok := w.Args["pair_lo"]; ok {
		return replayC20AllPairs(w)
	}
	if _, ok := w.Args["range_lo"]; ok {
		return replayC20RangeWindow(w)
	}
	var a gen.Node
	if err := json.Unmarshal(w.AST, &a); err != nil {
		return "witness has no AST"
	}
	c := buildC20(&a, w.Options)
	if c == nil {
		return ""
	}
	in := witnessRunes(w)
	base, incon := caseObs(c.re, in, false)
	if incon != "" {
		return ""
	}
	if other, ok := w.Args["flipped_input"].(string); ok {
		got, _ := caseObs(c.re, []rune(other), false)
		if got != base {
			return fmt.Sprintf("%q (IgnoreCase) on %q gives %s but on the case-flipped %q gives %s", c.src, string(in), base, other, got)
		}
	}
	if raw, ok := w.Args["flipped_ast"].(string); ok {
		var b gen.Node
		if json.Unmarshal([]byte(raw), &b) == nil {
			if c2 := buildC20(&b, w.Options); c2 != nil {
				got, _ := caseObs(c2.re, in, false)
				if got != base {
					return fmt.Sprintf("on %q: %q gives %s but the case-flipped pattern %q gives %s", string(in), c.src, base, c2.src, got)
				}
			}
		}
	}
	return ""
}

func runC20(r *core.Run) int {
	r.ReplayKnown(replayC20)
	nPat := r.Pick(9000, 150000)
	nDirected := r.Pick(20, 40)
	base := rand.New(rand.NewSource(r.Seed*236887691 + 20)).Int63()
	runC20Named(r)
	runC20AllPairs(r)
	runC20RangeWindows(r)
	r.Parallel(nPat, func(i int, l *core.Local) {
		rng := rand.New(rand.NewSource(base + int64(i)*1000003))
		opts := int(regexp2.IgnoreCase)
		if rng.Intn(5) == 0 {
			opts |= int(regexp2.RightToLeft)
		}
		if rng.Intn(6) == 0 {
			opts |= int(regexp2.Multiline)
		}
		g := gen.NewG(rng, c20Profile(rng))
		var root *gen.Node
		if i%3 == 0 {
			// a leading literal run long enough for the prefix searches and the raw-string filter
			t := &gen.T{R: rng, Let: g.P.Letters}
			lead := []rune{g.P.Letters[0], g.P.Letters[1%len(g.P.Letters)], g.P.Letters[rng.Intn(len(g.P.Letters))]}
			if rng.Intn(2) == 0 {
				// long enough for the word-at-a-time comparisons of the raw-string filters (8 bytes and more)
				for k := rng.Intn(14); k > 0; k-- {
					lead = append(lead, g.P.Letters[rng.Intn(len(g.P.Letters))])
				}
			}
			root = gen.Cat(gen.S(string(lead)), g.Alt(g.P.Depth))
			_ = t
		} else {
			root = g.Alt(g.P.Depth)
		}
		// some classes get a WIDE range (hundreds of code points) around a pair letter: case
		// equivalents of every cased rune inside must still be found, letter or not
		root.Walk(func(n *gen.Node) {
			if n.K != gen.KClass || rng.Intn(5) != 0 {
				return
			}
			i := rng.Intn(len(gen.PairLower))
			L := gen.PairLower[i]
			if rng.Intn(2) == 0 {
				L = gen.PairUpper[i]
			}
			lo, hi := L-rune(100+rng.Intn(1400)), L+rune(100+rng.Intn(1400))
			if gap := gen.PairLower[i] - gen.PairUpper[i]; gap > 1 && rng.Intn(2) == 0 {
				// wide, but holding only ONE case of the letter: the other must come from the closure
				k := rune(rng.Intn(int(min(gap-1, 12)) + 1))
				if rng.Intn(2) == 0 {
					lo, hi = gen.PairLower[i]-k, gen.PairLower[i]+rune(260+rng.Intn(1200))
				} else {
					lo, hi = gen.PairUpper[i]-rune(260+rng.Intn(1200)), gen.PairUpper[i]+k
				}
			}
			if lo < 0x80 {
				lo = 0x80
			}
			if lo <= 0xDFFF && hi >= 0xD800 {
				return
			}
			n.Items = append(n.Items, gen.ClassItem{T: "range", Lo: lo, Hi: hi, Sp: 15})
			l.Count("classes_with_wide_range", 1)
		})
		c := buildC20(root, opts)
		if c == nil || !r.ClaimPattern(fmt.Sprintf("%d/%s", opts, c.src)) {
			return
		}
		l.Count("patterns", 1)
		var variants []*c20Case
		for k := 0; k < 3; k++ {
			if v := buildC20(flipPattern(root, rng), opts); v != nil && v.src != c.src {
				variants = append(variants, v)
			}
		}
		l.Count("pattern_flip_variants", int64(len(variants)))
		pc := &patCase{src: c.src, opts: opts, pat: &gen.Pattern{AST: root}}
		d := ref.Dialect{}
		_ = d
		var nontriv int64
		timeouts := 0
		fail := func(detail string, in []rune, args map[string]any) {
			ast, _ := json.Marshal(root)
			w := core.Witness{Pattern: c.src, AST: ast, Options: opts, Input: string(in), Args: args}
			for _, x := range in {
				w.InputRune = append(w.InputRune, int32(x))
			}
			l.Violate(core.Violation{Kind: "case-flip-changed-result", Detail: detail, Witness: w})
		}
		for _, in := range inputsForPair(pc, rng, nDirected) {
			if r.Stopped() || timeouts >= 3 {
				break
			}
			want, incon := caseObs(c.re, in, false)
			if incon != "" {
				l.Inconclusive(incon)
				timeouts++
				continue
			}
			if want != "nil" {
				nontriv++
				if nontriv == 1 {
					l.Sample(map[string]any{"pattern": c.src, "options": opts, "input": string(in), "result": want})
				}
			}
			// string entry point (raw-string prefix filter with ASCII folding)
			l.Eval(1)
			l.Count("flip_string_api", 1)
			if got, inc := caseObs(c.re, in, true); inc == "" && got != want {
				fail(fmt.Sprintf("%q (IgnoreCase): FindStringMatch(%q) = %s but FindRunesMatch gives %s", c.src, string(in), got, want), in, nil)
				return
			}
			for k := 0; k < 3; k++ {
				fl := flipRunes(in, rng)
				if string(fl) == string(in) {
					continue
				}
				l.Eval(1)
				l.Count("flip_input", 1)
				got, inc := caseObs(c.re, fl, k == 0)
				if inc != "" {
					continue
				}
				if got != want {
					fail(fmt.Sprintf("%q (IgnoreCase) on %q gives %s but on the case-flipped %q gives %s", c.src, string(in), want, string(fl), got), in, map[string]any{"flipped_input": string(fl)})
					return
				}
			}
			for _, v := range variants {
				l.Eval(1)
				l.Count("flip_pattern", 1)
				got, inc := caseObs(v.re, in, false)
				if inc != "" {
					continue
				}
				if got != want {
					fa, _ := json.Marshal(v.ast)
					fail(fmt.Sprintf("on %q: %q gives %s but the case-flipped pattern %q gives %s", string(in), c.src, want, v.src, got), in, map[string]any{"flipped_ast": string(fa)})
					return
				}
			}
		}
		l.NontrivialN(nontriv)
	})
	r.Extras["bounds"] = map[string]any{"patterns": nPat, "inputs_per_pattern": nDirected, "input_flips": 3, "pattern_flips": 3}
	return r.Finish(
		"random ASTs compiled with IgnoreCase (some RightToLeft / Multiline) over simple-pair letters (ASCII without k and s, Latin-1, Latin Extended-A, Greek, Cyrillic, Armenian, fullwidth, circled letters (So), Roman numerals (Nl), Greek with title-case partners (Lt), Deseret from the supplementary planes): literal runs, leading literals for the prefix searches, classes, negated classes, subtractions, ranges inside one letter run, back-references; per (pattern,input): FindStringMatch == FindRunesMatch, three random case flips of the input letters and three random case flips of the pattern's literal letters / class members / range endpoints must all give the same match position and captures; plus the named classes: \\p{name}, \\P{name}, [^\\p{name}] and [\\w-[\\p{name}]] for each of 518 class names the engine accepts (categories under short and long names, scripts, binary properties, break-property values) against both members of all 1,397 simple case pairs of Unicode; and for every one of those pairs twelve one-letter constructs (literal, class, negated class, one-letter range, doubled literal, back-reference by number and name, subtraction, union with \\W, a three-letter run behind other text, look-behind, alternation loop) written with either member raw, as \\x{..} and as \\uXXXX, under IgnoreCase and IgnoreCase|RightToLeft (thorough: also with ECMAScript, RE2, m+s+n), on every case variant of the input; and ranges of two to five code points around every member of every pair ((?i)[lo-hi] must hold exactly the runes one of whose case variants lies in the range); non-trivial = distinct (pattern,input) that matches",
		[]string{"only letters whose case-fold orbit is a simple upper/lower pair are flipped, as the property states"},
		map[string]int64{"evaluations": 50000, "distinct_nontrivial": 5000, "flip_pattern": 10000, "flip_input": 10000, "named_classes": 400, "all_pairs_pairs": 1300, "range_windows": 10000})
}

// inputsForPair builds inputs over the pattern's letters (both cases) and a few neutral runes.
func inputsForPair(pc *patCase, rng *rand.Rand, n int) [][]rune {
	gen.Annotate(pc.pat.AST, envOf(pc.opts))
	alpha := gen.Alphabet(pc.pat.AST, true)
	var out [][]rune
	seen := map[string]bool{}
	sm := &gen.Sampler{R: rng, Alpha: alpha, Class: func(nd *gen.Node, ch rune) bool { return ref.ClassMatch(nd, ch, true, ref.Dialect{}) }}
	for k := 0; k < n*3 && len(out) < n; k++ {
		s := sm.Directed(pc.pat.AST, gen.PairDecorations)
		if !seen[string(s)] {
			seen[string(s)] = true
			out = append(out, s)
		}
	}
	return out
}
