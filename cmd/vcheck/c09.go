package main

import (
	"fmt"
	"math/rand"
	"strings"
	"unicode/utf8"

	regexp2 "github.com/dlclark/regexp2/v2"

	"verif/internal/core"
	"verif/internal/gen"
	"verif/internal/mon"
	"verif/internal/ref"
)

// C09: Replace / ReplaceFunc / Split against the fold over the match sequence
// and the documented $-grammar.

func init() {
	register("C09", runC09, replayC09)
}

type foldMatch struct {
	idx, length int
	groups      []string
}

// matchSeq enumerates matches from a byte offset (-1 = default start) through
// the public find API.
func matchSeq(re *regexp2.Regexp, s string, startAt int) (seq []foldMatch, err error) {
	var m *regexp2.Match
	if startAt < 0 {
		m, err = re.FindStringMatch(s)
	} else {
		m, err = re.FindStringMatchStartingAt(s, startAt)
	}
	for m != nil && err == nil && len(seq) <= utf8.RuneCountInString(s)+2 {
		fm := foldMatch{idx: m.RuneIndex, length: m.RuneLength}
		for _, g := range m.Groups() {
			v := ""
			if len(g.Captures) > 0 {
				v = g.Captures[len(g.Captures)-1].String()
			}
			fm.groups = append(fm.groups, v)
		}
		seq = append(seq, fm)
		m, err = re.FindNextMatch(m)
	}
	return seq, err
}

// foldReplace computes Replace(input, repl, startAt, count) from the match
// sequence; expand produces the substitution of one match.
func foldReplace(runes []rune, seq []foldMatch, count int, rtl bool, expand func(fm foldMatch) string) string {
	if count >= 0 && len(seq) > count {
		seq = seq[:count]
	}
	ordered := seq
	if rtl {
		ordered = make([]foldMatch, len(seq))
		for i, m := range seq {
			ordered[len(seq)-1-i] = m
		}
	}
	var sb strings.Builder
	prev := 0
	for _, m := range ordered {
		sb.WriteString(string(runes[prev:m.idx]))
		sb.WriteString(expand(m))
		prev = m.idx + m.length
	}
	sb.WriteString(string(runes[prev:]))
	return sb.String()
}

type c09Stats func(string)

// replaceLaws judges one (regexp, input, replacement, startAt, count).
func replaceLaws(re *regexp2.Regexp, gt *ref.GroupTable, s, repl string, startAt, count int, st c09Stats) (detail, incon string, nMatches int) {
	runes := []rune(s)
	rtl := re.RightToLeft()
	got, err := re.Replace(s, repl, startAt, count)
	// documented argument errors
	wantErr := count < -1 || startAt > len(s) || (startAt > 0 && startAt < len(s) && !utf8.RuneStart(s[startAt]))
	if wantErr {
		st("argument-error")
		if count == 0 {
			// with count 0 nothing is searched; whether startAt is still validated is not documented
			if err == nil && got != s {
				return fmt.Sprintf("Replace(%q, %q, %d, 0) = %q, expected the input (or an argument error)", s, repl, startAt, got), "", 0
			}
			return "", "", 0
		}
		if err == nil {
			return fmt.Sprintf("Replace(%q, %q, %d, %d) = %q without the documented argument error", s, repl, startAt, count, got), "", 0
		}
		return "", "", 0
	}
	if ref.ReplacementOverflows(repl) {
		// not a replacement string of the $-grammar: a group number beyond 32 bits is rejected (as in .NET)
		st("replacement-number-overflow")
		return "", "", 0
	}
	if err != nil {
		if mon.ResourceErr(err) {
			return "", "replace-" + mon.ErrClass(err), 0
		}
		return fmt.Sprintf("Replace(%q, %q, %d, %d) returned an error: %v", s, repl, startAt, count, err), "", 0
	}
	seq, err := matchSeq(re, s, startAt)
	if err != nil {
		if mon.ResourceErr(err) {
			return "", "find-" + mon.ErrClass(err), 0
		}
		return fmt.Sprintf("Replace(%q, %q, %d, %d) succeeded but enumerating the matches from the same start fails: %v", s, repl, startAt, count, err), "", 0
	}
	expand := func(fm foldMatch) string {
		return ref.Expand(repl, gt, &ref.MatchView{Input: runes, Index: fm.idx, Length: fm.length, Groups: fm.groups})
	}
	st("Replace")
	want := foldReplace(runes, seq, count, rtl, expand)
	if got != want {
		return fmt.Sprintf("Replace(%q, %q, %d, %d) = %q, the fold over the match sequence with the $-grammar gives %q", s, repl, startAt, count, got, want), "", len(seq)
	}
	// ReplaceFunc with an evaluator computing the same expansion
	st("ReplaceFunc")
	gotF, err := re.ReplaceFunc(s, func(m regexp2.Match) string {
		fm := foldMatch{idx: m.RuneIndex, length: m.RuneLength}
		for _, g := range m.Groups() {
			v := ""
			if len(g.Captures) > 0 {
				v = g.Captures[len(g.Captures)-1].String()
			}
			fm.groups = append(fm.groups, v)
		}
		return expand(fm)
	}, startAt, count)
	if err != nil {
		if mon.ResourceErr(err) {
			return "", "replacefunc-" + mon.ErrClass(err), len(seq)
		}
		return fmt.Sprintf("ReplaceFunc(%q, …, %d, %d) returned an error: %v", s, startAt, count, err), "", len(seq)
	}
	if gotF != want {
		return fmt.Sprintf("ReplaceFunc(%q, eval(%q), %d, %d) = %q, Replace and the fold give %q", s, repl, startAt, count, gotF, want), "", len(seq)
	}
	// $& is the identity
	st("identity")
	if id, err := re.Replace(s, "$&", startAt, count); err == nil && id != s {
		return fmt.Sprintf("Replace(%q, \"$&\", %d, %d) = %q, not the input", s, startAt, count, id), "", len(seq)
	}
	return "", "", len(seq)
}

// splitLaws judges Split(input, count).
func splitLaws(re *regexp2.Regexp, s string, count int, st c09Stats) (detail, incon string) {
	pieces, err := re.Split(s, count)
	if count < -1 {
		if err == nil {
			return fmt.Sprintf("Split(%q, %d) returned no argument error", s, count), ""
		}
		return "", ""
	}
	if err != nil {
		if mon.ResourceErr(err) {
			return "", "split-" + mon.ErrClass(err)
		}
		return fmt.Sprintf("Split(%q, %d) returned an error: %v", s, count, err), ""
	}
	st("Split")
	if count == 0 {
		if pieces != nil {
			return fmt.Sprintf("Split(%q, 0) = %q, documented result is nil", s, pieces), ""
		}
		return "", ""
	}
	seq, err := matchSeq(re, s, -1)
	if err != nil {
		return "", "find-error"
	}
	runes := []rune(s)
	ng := len(re.GetGroupNumbers())
	if len(seq) == 0 || count == 1 {
		if len(pieces) != 1 || pieces[0] != s {
			return fmt.Sprintf("Split(%q, %d) = %q, expected the input as the only piece", s, count, pieces), ""
		}
		return "", ""
	}
	if (len(pieces)-1)%ng != 0 {
		return fmt.Sprintf("Split(%q, %d) returned %d pieces, not k*%d+1", s, count, len(pieces), ng), ""
	}
	k := (len(pieces) - 1) / ng
	if k > len(seq) || (count < 0 && k != len(seq)) || (count > 0 && k > count) || k == 0 {
		return fmt.Sprintf("Split(%q, %d) used %d matches, the match sequence has %d", s, count, k, len(seq)), ""
	}
	used := seq[:k]
	if re.RightToLeft() {
		rev := make([]foldMatch, k)
		for i := range used {
			rev[k-1-i] = used[i]
		}
		used = rev
	}
	prev := 0
	var rebuilt strings.Builder
	for i, m := range used {
		between := string(runes[prev:m.idx])
		if pieces[i*ng] != between {
			return fmt.Sprintf("Split(%q, %d) = %q: piece %d should be the text %q before match #%d", s, count, pieces, i*ng, between, i), ""
		}
		for j := 1; j < ng; j++ {
			if pieces[i*ng+j] != m.groups[j] {
				return fmt.Sprintf("Split(%q, %d) = %q: piece %d should be group %d of match #%d (%q)", s, count, pieces, i*ng+j, j, i, m.groups[j]), ""
			}
		}
		rebuilt.WriteString(between)
		rebuilt.WriteString(string(runes[m.idx : m.idx+m.length]))
		prev = m.idx + m.length
	}
	rest := string(runes[prev:])
	if pieces[len(pieces)-1] != rest {
		return fmt.Sprintf("Split(%q, %d) = %q: the last piece should be the remainder %q", s, count, pieces, rest), ""
	}
	rebuilt.WriteString(rest)
	if rebuilt.String() != s {
		return fmt.Sprintf("Split(%q, %d): re-joining the pieces with the matched texts gives %q", s, count, rebuilt.String()), ""
	}
	return "", ""
}

// ecmaOddBrace: some "${" is not followed by a plain word and a closing brace.
func groupTableOf(re *regexp2.Regexp, opts int) *ref.GroupTable {
	return &ref.GroupTable{Numbers: re.GetGroupNumbers(), Names: re.GetGroupNames(), ECMA: opts&int(regexp2.ECMAScript) != 0}
}

// genReplacement produces a replacement string from the $-grammar.
func genReplacement(rng *rand.Rand, gt *ref.GroupTable) string {
	var sb strings.Builder
	n := 1 + rng.Intn(5)
	for i := 0; i < n; i++ {
		switch rng.Intn(16) {
		case 0, 1:
			sb.WriteString([]string{"x", "-", "<", ">", " ", "é", "😀", "0", "1", "}", "{"}[rng.Intn(11)])
		case 2, 3:
			sb.WriteString(fmt.Sprintf("$%d", gt.Numbers[rng.Intn(len(gt.Numbers))]))
		case 4:
			sb.WriteString(fmt.Sprintf("${%d}", gt.Numbers[rng.Intn(len(gt.Numbers))]))
		case 5:
			sb.WriteString("${" + gt.Names[rng.Intn(len(gt.Names))] + "}")
		case 6:
			sb.WriteString("$$")
		case 7:
			sb.WriteString("$&")
		case 8:
			sb.WriteString("$`")
		case 9:
			sb.WriteString("$'")
		case 10:
			sb.WriteString("$+")
		case 11:
			sb.WriteString("$_")
		case 12:
			// ambiguous / unknown references
			sb.WriteString([]string{"$10", "$99", "${1}0", "${nope}", "${", "${1", "$x", "$ ", "${}", "$-", "$$$1", "$0", "${0}", "$01", "${01}", "${\\", "${n\\x}", "${\\u00}", "$12", "$11x", "${12}"}[rng.Intn(21)])
		case 13:
			sb.WriteString("$")
		case 14:
			sb.WriteString(fmt.Sprintf("$%d%d", gt.Numbers[rng.Intn(len(gt.Numbers))], rng.Intn(10)))
		case 15:
			sb.WriteString("\\$1\n")
		}
	}
	return sb.String()
}

func replayC09(w core.Witness) string {
	var extra []regexp2.CompileOption
	if v, ok := w.Args["cache_entries"].(float64); ok {
		extra = append(extra, regexp2.OptionMaxCachedReplacerDataEntries(int(v)))
	}
	re, err := mon.Compile(w.Pattern, w.Options, w.COpts, extra...)
	if err != nil {
		return ""
	}
	if w.Kind == "split" {
		d, _ := splitLaws(re, w.Input, w.N, func(string) {})
		return d
	}
	d, _, _ := replaceLaws(re, groupTableOf(re, w.Options), w.Input, w.Repl, w.Start, w.N, func(string) {})
	return d
}

func runC09(r *core.Run) int {
	r.ReplayKnown(replayC09)
	nPat := r.Pick(5000, 80000)
	nInputs := r.Pick(8, 14)
	nRepl := r.Pick(6, 10)
	base := rand.New(rand.NewSource(r.Seed*141650939 + 9)).Int63()
	r.Parallel(nPat, func(i int, l *core.Local) {
		rng := rand.New(rand.NewSource(base + int64(i)*1000003))
		var pc *patCase
		if i%12 == 5 {
			// many groups: two-digit group numbers ($10, $12 under both digit rules), 9 to 14 groups over
			// distinct letters, some optional, some named
			k := 9 + rng.Intn(6)
			root := gen.Cat()
			for gi := 1; gi <= k; gi++ {
				grp := &gen.Node{K: gen.KGroup, Capture: true, GID: gi, Kids: []*gen.Node{gen.L(rune('a' + gi - 1))}}
				if rng.Intn(5) == 0 {
					grp.Name = "n" + string(rune('a'+gi-1))
				}
				var item *gen.Node = grp
				if rng.Intn(6) == 0 {
					item = gen.Rep(grp, 0, 1)
				}
				root.Kids = append(root.Kids, item)
			}
			opts := 0
			if rng.Intn(4) == 0 {
				opts |= int(regexp2.RightToLeft)
			}
			if p := gen.Finish(root, envOf(opts), false, gen.PrintOpts{}); p != nil {
				pc = &patCase{src: p.Src, opts: opts, pat: p, origin: "many-groups"}
				l.Count("patterns_with_9_to_14_groups", 1)
			}
		} else if i%4 == 3 {
			pc = makePattern(i, rng, [3]int{1, 0, 2}, 8)
			noteCtx(l, pc)
		} else {
			opts := 0
			for _, o := range []regexp2.RegexOptions{regexp2.IgnoreCase, regexp2.Multiline, regexp2.Singleline, regexp2.ExplicitCapture, regexp2.RE2} {
				if rng.Intn(6) == 0 {
					opts |= int(o)
				}
			}
			if rng.Intn(3) == 0 {
				opts |= int(regexp2.RightToLeft)
			}
			prof := captureProfile(rng)
			prof.ExplicitNum = rng.Intn(3) == 0
			prof.Balancing = rng.Intn(6) == 0
			g := gen.NewG(rng, prof)
			p := g.Random(envOf(opts), false)
			pc = &patCase{src: p.Src, opts: opts, pat: p, origin: "random-captures"}
		}
		if pc == nil {
			return
		}
		// ECMAScript has its own rule for $ followed by digits (the expander follows it); a quarter of
		// the generated patterns are compiled with it
		if pc.pat != nil && rng.Intn(4) == 0 {
			pc.opts |= int(regexp2.ECMAScript)
			pc.opts &^= int(regexp2.RE2 | regexp2.RightToLeft)
		} else {
			pc.opts &^= int(regexp2.ECMAScript | regexp2.Unicode)
		}
		if !r.ClaimPattern(fmt.Sprintf("%d/%s", pc.opts, pc.src)) {
			return
		}
		cacheEntries := []int{16, 16, 0, 1, -1}[rng.Intn(5)]
		re, err := mon.Compile(pc.src, pc.opts, 0, regexp2.OptionMaxCachedReplacerDataEntries(cacheEntries))
		if err != nil {
			l.Count("compile_rejected", 1)
			return
		}
		re.MatchTimeout = shortTimeout
		gt := groupTableOf(re, pc.opts)
		l.Count("patterns", 1)
		if re.RightToLeft() {
			l.Count("patterns_rtl", 1)
		}
		l.Count(fmt.Sprintf("cache_entries_%d", cacheEntries), 1)
		st := func(k string) { l.Count("law_"+k, 1) }
		var repls []string
		for k := 0; k < nRepl; k++ {
			repls = append(repls, genReplacement(rng, gt))
		}
		// more distinct replacement strings than the cache holds, then the first again
		for k := 0; k < 20 && i%7 == 0; k++ {
			repls = append(repls, fmt.Sprintf("<%d:$&>", k))
		}
		repls = append(repls, repls[0])
		inputs := inputsFor(pc, rng, 0, nInputs)
		var nontriv int64
		timeouts := 0
		fail := func(kind, detail string, w core.Witness) {
			w.Args["cache_entries"] = cacheEntries
			l.Violate(core.Violation{Kind: kind, Detail: detail, Witness: w})
		}
		for _, runes := range inputs {
			if r.Stopped() || timeouts >= 3 {
				break
			}
			if !validRunes(runes) {
				continue
			}
			s := string(runes)
			hit := false
			for _, repl := range repls {
				starts := []int{-1, -1, 0, len(s), rng.Intn(len(s) + 2), rng.Intn(len(s) + 2)}
				startAt := starts[rng.Intn(len(starts))]
				count := []int{-1, -1, -1, 0, 1, 2, 3, -2}[rng.Intn(8)]
				detail, incon, nm := replaceLaws(re, gt, s, repl, startAt, count, st)
				l.Eval(1)
				if incon != "" {
					l.Inconclusive(incon)
					timeouts++
					break
				}
				if nm > 0 {
					hit = true
				}
				if detail != "" {
					w := witnessOf(pc, nil, startAt)
					w.Input, w.Repl, w.N = s, repl, count
					fail("replace-is-not-the-fold", detail, w)
					return
				}
			}
			for _, count := range []int{-1, 0, 1, 2, 3} {
				detail, incon := splitLaws(re, s, count, st)
				l.Eval(1)
				if incon != "" {
					l.Inconclusive(incon)
					timeouts++
					break
				}
				if detail != "" {
					w := witnessOf(pc, nil, 0)
					w.Kind, w.Input, w.N = "split", s, count
					fail("split-is-not-the-fold", detail, w)
					return
				}
			}
			if hit {
				nontriv++
				if nontriv == 1 {
					l.Sample(map[string]any{"pattern": pc.src, "options": pc.opts, "input": s, "replacements": repls[:3]})
				}
			}
		}
		l.NontrivialN(nontriv)
	})
	r.Extras["bounds"] = map[string]any{"patterns": nPat, "inputs_per_pattern": nInputs, "replacements_per_input": nRepl, "count": []int{-2, -1, 0, 1, 2, 3}, "startAt": "-1, 0, len, random in [0,len+1] (byte offsets, incl. inside runes)"}
	return r.Finish(
		"random ASTs with named / numbered / balancing groups, templates and corpus patterns, both directions, replacement cache of 0 / 1 / 16 / unbounded entries; replacement strings generated from the $-grammar (valid, ambiguous such as $10 or ${1}0, unknown names, trailing $, $$$1, literal); evaluation = one Replace call compared with the fold over the FindStringMatchStartingAt/FindNextMatch sequence and the reference $-expander, plus ReplaceFunc with the same expansion and the $& identity, or one Split call checked piece by piece and re-joined; argument errors asserted where documented; non-trivial = distinct (pattern,input) with at least one replaced match",
		[]string{"the $-expander (internal/ref/replace.go) is written from the documentation", "the match sequence itself comes from the find API (its correctness is C01/C02/C07)", "Split's count rule is not pinned beyond: 0 -> nil, 1 -> input, -1 -> all matches, k -> at most k matches"},
		map[string]int64{"evaluations": 50000, "distinct_nontrivial": 5000, "law_Split": 10000, "law_ReplaceFunc": 10000, "patterns_rtl": 200})
}
