// vcheck runs one runtime-monitoring check against the regexp2 tree linked in
// through the module replace (normally /repo, built with -tags verif).
package main

import (
	"encoding/json"
	"flag"
	"fmt"
	"os"
	"path/filepath"
	"runtime"
	"runtime/pprof"
	"sort"
	"strconv"
	"time"

	"verif/internal/core"
)

type check struct {
	run    func(r *core.Run) int
	replay func(w core.Witness) string // "" = behaves correctly
}

var checks = map[string]check{}

func register(id string, run func(r *core.Run) int, replay func(w core.Witness) string) {
	checks[id] = check{run, replay}
}

func main() {
	id := flag.String("check", "", "property id (C01…C20)")
	tier := flag.String("tier", "quick", "quick | thorough")
	replay := flag.String("replay", "", "replay file written by an earlier run")
	list := flag.Bool("list", false, "list checks")
	prof := flag.String("cpuprofile", "", "write a CPU profile (diagnosis of the harness itself)")
	flag.Parse()
	if *prof != "" {
		f, err := os.Create(*prof)
		if err == nil {
			pprof.StartCPUProfile(f)
			defer pprof.StopCPUProfile()
		}
	}
	if gb, _ := strconv.Atoi(os.Getenv("VERIF_HEAP_DUMP_GB")); gb > 0 {
		// diagnosis of the harness itself: write one heap profile when the live heap passes the mark
		go func() {
			var ms runtime.MemStats
			for {
				time.Sleep(2 * time.Second)
				runtime.ReadMemStats(&ms)
				if ms.HeapInuse > uint64(gb)<<30 {
					if f, err := os.Create(filepath.Join(core.VerifDir(), "logs", fmt.Sprintf("heap-%s.pprof", *id))); err == nil {
						pprof.WriteHeapProfile(f)
						f.Close()
					}
					return
				}
			}
		}()
	}
	if *list {
		var ids []string
		for k := range checks {
			ids = append(ids, k)
		}
		sort.Strings(ids)
		for _, k := range ids {
			fmt.Println(k)
		}
		return
	}
	if *c10Worker != "" {
		os.Exit(c10WorkerMain(*c10Worker, *tier))
	}
	if *c14Hist != "" {
		os.Exit(c14ChildMain(*c14Hist))
	}
	if *c10One != "" {
		os.Exit(c10CaseMain(*c10One))
	}
	c, ok := checks[*id]
	if !ok {
		fmt.Fprintf(os.Stderr, "unknown check %q\n", *id)
		os.Exit(2)
	}
	if *replay != "" {
		b, err := os.ReadFile(*replay)
		if err != nil {
			fmt.Fprintln(os.Stderr, err)
			os.Exit(2)
		}
		var v core.Violation
		if err := json.Unmarshal(b, &v); err != nil {
			fmt.Fprintln(os.Stderr, "bad replay file:", err)
			os.Exit(2)
		}
		if c.replay == nil {
			fmt.Fprintln(os.Stderr, "this check has no replay function")
			os.Exit(2)
		}
		var detail string
		p, st := core.Guard(func() { detail = c.replay(v.Witness) })
		if p != nil {
			detail = fmt.Sprintf("panic: %v\n%s", p, st)
		}
		if detail != "" {
			fmt.Printf("VIOLATION property=%s replay=%s\n  %s\n", *id, *replay, detail)
			os.Exit(1)
		}
		fmt.Printf("replay of %s: the witness behaves correctly on this tree\n", *replay)
		return
	}
	r := core.NewRun(*id, *tier)
	rc := c.run(r)
	pprof.StopCPUProfile()
	os.Exit(rc)
}
