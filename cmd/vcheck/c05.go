package main

import (
	"fmt"
	"math/rand"

	regexp2 "github.com/dlclark/regexp2/v2"
	"github.com/dlclark/regexp2/v2/syntax"

	"verif/internal/core"
	"verif/internal/mon"
)

// C05: the normally compiled pattern against the same pattern compiled with the
// semantics-preserving rewrites gated off, both run by the naive scan.

func init() {
	register("C05", runC05, replayC05)
}

const allRewrites = syntax.VerifRewriteAutoAtomic | syntax.VerifRewriteEndingBacktracking | syntax.VerifRewriteBumpalong |
	syntax.VerifRewriteAtomicAlternation | syntax.VerifRewriteAlternationPrefix

func compileWithRewritesOff(src string, opts, copts int, mask uint32) (*regexp2.Regexp, error) {
	return mon.CompileGated(mask, src, opts, copts)
}

func compileNormal(src string, opts, copts int) (*regexp2.Regexp, error) {
	return mon.Compile(src, opts, copts)
}

func treeDump(src string, opts int, mask uint32) string { return mon.TreeDumpGated(mask, src, opts) }

func rewriteCompare(on, off *regexp2.Regexp, runes []rune, start int) (detail, got, want, incon string, matched bool) {
	a, aerr := on.VerifNaiveFind(runes, start, start)
	b, berr := off.VerifNaiveFind(runes, start, start)
	if aerr != nil || berr != nil {
		if (aerr == nil || mon.ResourceErr(aerr)) && (berr == nil || mon.ResourceErr(berr)) {
			return "", "", "", "resource-error", false
		}
		return fmt.Sprintf("errors: rewritten=%v unrewritten=%v", aerr, berr), "", "", "", false
	}
	got, want = mon.ObsAll(a), mon.ObsAll(b)
	if got != want {
		return fmt.Sprintf("on %q from %d the rewritten pattern gives %s, the same pattern compiled with the rewrites off gives %s", string(runes), start, got, want), got, want, "", b != nil
	}
	return "", got, want, "", b != nil
}

func replayC05(w core.Witness) string {
	mask := uint32(allRewrites)
	if m, ok := w.Args["rewrites_off_mask"].(float64); ok {
		mask = uint32(m)
	}
	on, err := compileNormal(w.Pattern, w.Options, w.COpts)
	if err != nil {
		return ""
	}
	off, err := compileWithRewritesOff(w.Pattern, w.Options, w.COpts, mask)
	if err != nil {
		return "the pattern compiles normally but not with the rewrites off: " + err.Error()
	}
	d, _, _, _, _ := rewriteCompare(on, off, witnessRunes(w), w.Start)
	return d
}

func runC05(r *core.Run) int {
	r.ReplayKnown(replayC05)
	nPat := r.Pick(9000, 150000)
	nDirected := r.Pick(30, 60)
	masks := []uint32{allRewrites}
	if !r.Quick() {
		masks = []uint32{allRewrites, 1, 2, 4, 8, 16, allRewrites &^ 1, allRewrites &^ 2, allRewrites &^ 4, allRewrites &^ 8, allRewrites &^ 16}
	} else {
		masks = []uint32{allRewrites, allRewrites, allRewrites, 1, 2, 4, 8, 16}
	}
	base := rand.New(rand.NewSource(r.Seed*15485863 + 5)).Int63()
	r.Parallel(nPat, func(i int, l *core.Local) {
		rng := rand.New(rand.NewSource(base + int64(i)*1000003))
		pc := makePattern(i, rng, [3]int{3, 2, 1}, 10)
		noteCtx(l, pc)
		if pc == nil {
			return
		}
		// rewrites are left-to-right only, but look-behind content and RightToLeft patterns must be unaffected too
		copts := []int{0, 0, mon.COCodeGen}[rng.Intn(3)]
		mask := masks[rng.Intn(len(masks))]
		if !r.ClaimPattern(fmt.Sprintf("%d/%d/%d/%s", pc.opts, copts, mask, pc.src)) {
			return
		}
		on, err := compileNormal(pc.src, pc.opts, copts)
		if err != nil {
			l.Count("compile_rejected", 1)
			return
		}
		off, err := compileWithRewritesOff(pc.src, pc.opts, copts, mask)
		if err != nil {
			l.Violate(core.Violation{Kind: "rewrites-off-compile-error", Detail: err.Error(), Witness: witnessOf(pc, nil, 0)})
			return
		}
		on.MatchTimeout, off.MatchTimeout = shortTimeout, shortTimeout
		l.Count("patterns", 1)
		l.Count(fmt.Sprintf("mask_%02d", mask), 1)
		l.Count("origin_"+pc.origin, 1)
		changed := treeDump(pc.src, pc.opts, 0) != treeDump(pc.src, pc.opts, mask)
		if changed {
			l.Count("patterns_whose_tree_differs", 1)
			l.Count(fmt.Sprintf("tree_differs_mask_%02d", mask), 1)
		}
		var nontriv int64
		timeouts := 0
		for _, runes := range inputsFor(pc, rng, 3, nDirected) {
			if r.Stopped() {
				return
			}
			hit := false
			for s := 0; s <= len(runes); s += offsetStep(len(runes), s) {
				detail, got, want, incon, matched := rewriteCompare(on, off, runes, s)
				l.Eval(1)
				if incon != "" {
					l.Inconclusive(incon)
					timeouts++
					if timeouts >= 3 {
						l.Count("patterns_abandoned_after_timeouts", 1)
						l.NontrivialN(nontriv)
						return
					}
					continue
				}
				if matched && changed {
					hit = true
				}
				if detail != "" {
					if k := r.KnownClass("nonboundary-auto-atomic"); k != nil && explainedByNonBoundaryAtomic(pc.src, pc.opts, copts, runes, s, want) {
						r.KnownHit(k.ID)
						continue
					}
					spc, sr, ss := shrinkCase(pc, runes, s, func(src string, in []rune, st int) bool {
						a, err := compileNormal(src, pc.opts, copts)
						if err != nil {
							return false
						}
						b, err := compileWithRewritesOff(src, pc.opts, copts, mask)
						if err != nil {
							return false
						}
						a.MatchTimeout, b.MatchTimeout = shortTimeout, shortTimeout
						d, _, w2, _, _ := rewriteCompare(a, b, in, st)
						return d != "" && !explainedByNonBoundaryAtomic(src, pc.opts, copts, in, st, w2)
					})
					w := witnessOf(spc, sr, ss)
					w.COpts = copts
					w.Args["rewrites_off_mask"] = mask
					w.Args["original_pattern"] = pc.src
					if d2 := replayC05(w); d2 != "" {
						detail = d2
					} else {
						w = witnessOf(pc, runes, s)
						w.COpts = copts
						w.Args["rewrites_off_mask"] = mask
					}
					l.Violate(core.Violation{Kind: "rewrite-changed-result", Detail: detail, Observed: got, Expected: want, Witness: w})
					return
				}
			}
			if hit {
				nontriv++
				if nontriv == 1 {
					l.Sample(map[string]any{"pattern": pc.src, "options": pc.opts, "rewrites_off_mask": mask, "input": string(runes)})
				}
			}
		}
		l.NontrivialN(nontriv)
	})
	r.Extras["bounds"] = map[string]any{"patterns": nPat, "exhaustive_len": 3, "directed_inputs_per_pattern": nDirected, "masks": masks}
	return r.Finish(
		"patterns from rewrite-shaped templates, random full-syntax ASTs and the harvested corpus; each compiled normally and with a set of rewrites gated off (all five, or single ones); per pattern bounded-exhaustive and pattern-directed inputs at every start offset; evaluation = one comparison of the two naive-scan results (position and all captures); non-trivial = distinct (pattern,mask,input) where the gated compile produced a different tree and the un-rewritten pattern matches",
		[]string{"the rewrite gates switch off exactly the five passes named in the property", "compiles that flip the gate are serialised against all other compiles in the process"},
		map[string]int64{"evaluations": 50000, "distinct_nontrivial": 1000, "patterns_whose_tree_differs": 100})
}

// explainedByNonBoundaryAtomic is the class predicate of the known finding
// "loop over non-word/non-digit chars followed by \B is made atomic": the
// divergence is in the class iff compiling with ONLY those clauses of the
// auto-atomic analysis gated off already gives the un-rewritten result.
func explainedByNonBoundaryAtomic(src string, opts, copts int, runes []rune, start int, want string) bool {
	re, err := mon.CompileGated(syntax.VerifRewriteNonBoundaryAtomic, src, opts, copts)
	if err != nil {
		return false
	}
	re.MatchTimeout = shortTimeout
	m, err := re.VerifNaiveFind(runes, start, start)
	if err != nil {
		return false
	}
	return mon.ObsAll(m) == want
}
