// probe: ad-hoc triage helper. probe [-o opts] [-s start] pattern input...
package main

import (
	"flag"
	"fmt"
	"strconv"

	regexp2 "github.com/dlclark/regexp2/v2"
	"github.com/dlclark/regexp2/v2/syntax"
	"verif/internal/mon"
)

func main() {
	o := flag.String("o", "0", "options (int, 0x..)")
	s := flag.Int("s", 0, "start (runes); -1 = default")
	dump := flag.Bool("d", false, "dump tree and code")
	rw := flag.Int("rw", 0, "VerifDisableRewrites mask")
	flag.Parse()
	opts, _ := strconv.ParseInt(*o, 0, 32)
	pat := flag.Arg(0)
	syntax.VerifDisableRewrites = uint32(*rw)
	re, err := regexp2.Compile(pat, regexp2.RegexOptions(opts))
	if err != nil {
		fmt.Println("compile error:", err)
		return
	}
	if *dump {
		re2, _ := regexp2.Compile(pat, regexp2.RegexOptions(opts), regexp2.OptionDebug())
		_ = re2
	}
	for _, in := range flag.Args()[1:] {
		in, _ = strconv.Unquote(`"` + in + `"`)
		r := []rune(in)
		st := *s
		if st < 0 {
			st = 0
			if re.RightToLeft() {
				st = len(r)
			}
		}
		m, err := re.FindRunesMatchStartingAt(r, st)
		n, err2 := re.VerifNaiveFind(r, st, st)
		sm, err3 := re.FindStringMatch(in)
		fmt.Printf("%q: runes=%s err=%v | naive=%s err=%v | string=%s err=%v\n", in, mon.ObsAll(m), err, mon.ObsAll(n), err2, mon.ObsAll(sm), err3)
	}
}
