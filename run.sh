#!/bin/bash
# run.sh <ID> [quick|thorough] [extra vcheck args...]
# Rebuilds the checker from /repo's current working tree (hooks on: -tags verif)
# and runs one check. Exit 0 = held on everything explored, 1 = VIOLATION,
# 2 = could not build, 3 = INCONCLUSIVE (monitors observed too little).
set -u
ID=${1:?usage: run.sh <ID> [tier]}
TIER=${2:-${VERIF_TIER:-quick}}
shift; [ $# -gt 0 ] && shift
cd "$(dirname "$0")" || exit 2
VERIF_DIR=$(pwd)
export GOFLAGS=-mod=mod GOPROXY=off
unset GOSUMDB GOTOOLCHAIN 2>/dev/null
REPO=${VERIF_REPO:-/repo}
mkdir -p bin logs evidence replays .scratch
MODFLAG=""
if [ "$REPO" != "/repo" ]; then
  MF=.scratch/go.$$.mod
  sed "s#=> /repo#=> $REPO#" go.mod > "$MF"
  MODFLAG="-modfile=$MF"
  trap 'rm -f "$VERIF_DIR/$MF" "$VERIF_DIR/${MF%.mod}.sum"' EXIT
fi
RACE=""
case "$ID" in
  C11) RACE="-race" ;;
esac
if [ -n "${VERIF_RACE:-}" ]; then RACE="-race"; fi
BIN=bin/vcheck-$ID$RACE.$$
if ! go build $MODFLAG $RACE -tags verif -o "$BIN" ./cmd/vcheck 2> logs/build-$ID.log; then
  if ! go version >/dev/null 2>&1; then
    export GOTOOLCHAIN=local
    go1.26.8 build $MODFLAG $RACE -tags verif -o "$BIN" ./cmd/vcheck 2> logs/build-$ID.log
  fi
fi
if [ ! -x "$BIN" ]; then
  cat logs/build-$ID.log
  echo "BUILD-FAILED property=$ID (the tree under $REPO does not build with -tags verif)"
  exit 2
fi
LOG=logs/run-$ID-$TIER.log
export VERIF_MODFLAG="$MODFLAG"
if [ "$ID" = "C10" ]; then
  # a second, -race build of the same checker: a share of the C10 cases runs under it (checkptr)
  RBIN=bin/vcheck-C10-race.$$
  if go build $MODFLAG -race -tags verif -o "$RBIN" ./cmd/vcheck 2>> logs/build-$ID.log; then
    export VERIF_RACE_BIN="$VERIF_DIR/$RBIN"
  fi
fi
if [ -n "$RACE" ]; then
  # exploration mode: reports go to files and are counted by the checker, not trusted to the exit code
  rm -f logs/race-$ID.$$.*
  export VERIF_RACE_LOG="$VERIF_DIR/logs/race-$ID.$$"
  export GORACE="halt_on_error=0 log_path=$VERIF_RACE_LOG"
fi
VERIF_DIR="$VERIF_DIR" VERIF_REPO="$REPO" "$BIN" -check "$ID" -tier "$TIER" "$@" 2> >(tee "$LOG.stderr" >&2)
RC=$?
rm -f "$BIN" ${RBIN:-}
[ -n "$RACE" ] && rm -f logs/race-$ID.$$.*
case $RC in
  0|1|3) exit $RC ;;
  *)
    # the checker process itself died (fatal runtime error, kill): that is a
    # violation of the property whose workload was running
    mkdir -p replays/$ID
    cp "$LOG.stderr" replays/$ID/fatal-$$.log 2>/dev/null
    echo "VIOLATION property=$ID replay=$VERIF_DIR/replays/$ID/fatal-$$.log"
    exit 1 ;;
esac
