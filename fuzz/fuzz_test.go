//go:build verif

// Package fuzz holds the coverage-guided targets of the C10 thorough tier.
// Run through ../run.sh C10 thorough (budgets by execution count).
package fuzz

import (
	"errors"
	"strings"
	"testing"
	"time"

	regexp2 "github.com/dlclark/regexp2/v2"
	"github.com/dlclark/regexp2/v2/compat"
	"github.com/dlclark/regexp2/v2/syntax"
)

func init() { regexp2.SetTimeoutCheckPeriod(time.Millisecond) }

func okMatchErr(err error) bool {
	return err == nil || strings.Contains(err.Error(), "timeout") || errors.Is(err, regexp2.ErrBacktrackingStackLimit)
}

func okArgErr(err error) bool {
	return err != nil && (strings.HasPrefix(err.Error(), "startAt must") || err.Error() == "count too small")
}

func isParse(err error) bool {
	var pe *syntax.Error
	return errors.As(err, &pe)
}

func compile(t *testing.T, pattern string, opts uint16) *regexp2.Regexp {
	if len(pattern) > 2000 {
		return nil
	}
	re, err := regexp2.Compile(pattern, regexp2.RegexOptions(opts&0x777))
	if err != nil {
		if !isParse(err) {
			t.Fatalf("Compile(%q, %#x) returned a non-parse error: %v", pattern, opts, err)
		}
		return nil
	}
	re.MatchTimeout = 50 * time.Millisecond
	return re
}

var seeds = []string{`a(b|c)*d`, `(?<n>\w+)\s\k<n>`, `^(?:(?<o>\()|(?<-o>\))|[^()])*(?(o)(?!))$`, `[a-z-[aeiou]]+`, `(?i)\bfoo\b`, `(?=a)a+?b{2,3}`, `\p{Lu}\P{Ll}[[:alpha:]]`, `(?(?=x)x|y)`, `\G(?<=a)b`, `(a*)*$`,
	// witnesses of repaired defects (D36, D30, D6)
	`(?<A>(?<A-A>x){2}n)(?<A>A)`, `(?<o-c>\()+[^()]*(?<c>\))+`, `\p{wb}`, `,`}

func FuzzCompileMatch(f *testing.F) {
	for _, s := range seeds {
		f.Add(s, "aab abc xyz", uint16(0))
		f.Add(s, "(a(b)c)", uint16(0x41))
		f.Add(s, "xxnA ((ab))", uint16(0x40))
	}
	f.Fuzz(func(t *testing.T, pattern, input string, opts uint16) {
		re := compile(t, pattern, opts)
		if re == nil || len(input) > 300 {
			return
		}
		if _, err := re.MatchString(input); !okMatchErr(err) {
			t.Fatalf("MatchString: %v", err)
		}
		m, err := re.FindStringMatch(input)
		for k := 0; m != nil && err == nil && k < len(input)+3; k++ {
			for _, g := range m.Groups() {
				_ = g.String()
				for _, c := range g.Captures {
					c.ByteRange()
				}
			}
			m, err = re.FindNextMatch(m)
		}
		if !okMatchErr(err) {
			t.Fatalf("FindStringMatch chain: %v", err)
		}
		r := []rune(input)
		if _, err := re.FindRunesMatchStartingAt(r, len(r)/2); !okMatchErr(err) {
			t.Fatalf("FindRunesMatchStartingAt: %v", err)
		}
		if _, err := re.FindAllStringIndex(input, -1); !okMatchErr(err) {
			t.Fatalf("FindAllStringIndex: %v", err)
		}
		if _, err := re.FindStringMatchStartingAt(input, len(input)/2); !okMatchErr(err) && !okArgErr(err) {
			t.Fatalf("FindStringMatchStartingAt: %v", err)
		}
	})
}

func FuzzReplaceSplit(f *testing.F) {
	for _, s := range seeds {
		f.Add(s, "aab abc xyz", "<$1-${n}$&>", int16(-1), int8(-1))
	}
	f.Fuzz(func(t *testing.T, pattern, input, repl string, start int16, count int8) {
		re := compile(t, pattern, uint16(start)&0x41)
		if re == nil || len(input) > 300 || len(repl) > 100 {
			return
		}
		if _, err := re.Replace(input, repl, int(start), int(count)); !okMatchErr(err) && !okArgErr(err) && !isParse(err) {
			t.Fatalf("Replace: %v", err)
		}
		if _, err := re.ReplaceFunc(input, func(m regexp2.Match) string { return repl }, int(start), int(count)); !okMatchErr(err) && !okArgErr(err) {
			t.Fatalf("ReplaceFunc: %v", err)
		}
		if _, err := re.Split(input, int(count)); !okMatchErr(err) && !okArgErr(err) {
			t.Fatalf("Split: %v", err)
		}
	})
}

func FuzzEscape(f *testing.F) {
	f.Add(`a.b*c\d`)
	f.Add("͸\U000E0001 \t#")
	f.Fuzz(func(t *testing.T, s string) {
		if len(s) > 200 {
			return
		}
		e := regexp2.Escape(s)
		u, err := regexp2.Unescape(e)
		if strings.ToValidUTF8(s, "�") == s {
			if err != nil || u != s {
				t.Fatalf("Unescape(Escape(%q)) = %q, %v", s, u, err)
			}
		}
		if _, err := regexp2.Unescape(s); err != nil && !isParse(err) {
			t.Fatalf("Unescape(%q): %v", s, err)
		}
	})
}

func FuzzCompat(f *testing.F) {
	for _, s := range seeds {
		f.Add(s, "aab abc xyz")
	}
	f.Fuzz(func(t *testing.T, pattern, input string) {
		re := compile(t, pattern, uint16(regexp2.RE2))
		if re == nil || len(input) > 300 {
			return
		}
		defer func() {
			if p := recover(); p != nil {
				if err, ok := p.(error); ok && okMatchErr(err) {
					return
				}
				panic(p)
			}
		}()
		c := compat.Wrap(re)
		b := []byte(input)
		c.Match(b)
		c.FindSubmatchIndex(b)
		c.FindAllStringSubmatchIndex(input, -1)
		c.FindAllSubmatch(b, 2)
		c.FindReaderSubmatchIndex(strings.NewReader(input))
		c.FindAllString(input, 3)
	})
}
