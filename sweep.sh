#!/bin/bash
# sweep.sh [tier] — runs every check once (VERIF_SEED honoured) and prints one line per check.
TIER=${1:-quick}
cd "$(dirname "$0")"
for i in $(seq -w 1 20); do
  S=$(date +%s)
  OUT=$(./run.sh C$i $TIER 2>&1); RC=$?
  echo "C$i rc=$RC $(( $(date +%s) - S ))s $(echo "$OUT" | grep -c '^VIOLATION') violations $(echo "$OUT" | grep -c '^KNOWN-FINDING') known | $(echo "$OUT" | grep "^C$i $TIER" | cut -c1-160)"
done
