// Package ref is the executable specification the monitors judge the engine
// against: character-class set algebra over Go's unicode tables, a
// continuation-passing backtracking matcher over the generator's AST, the
// rune<->byte index map, the $-replacement expander and the Replace/Split folds.
// It shares nothing with regexp2's parser, reducer, writer or interpreter.
package ref

import (
	"strings"
	"unicode"

	"verif/internal/gen"
)

// Dialect selects the meaning of the shorthand classes.
type Dialect struct {
	RE2  bool
	ECMA bool
}

// IsWord is the documented \w: L, Mn, Nd, Pc plus ZWJ / ZWNJ.
func IsWord(r rune) bool {
	return unicode.In(r, unicode.L, unicode.Mn, unicode.Nd, unicode.Pc) || r == 0x200D || r == 0x200C
}

func asciiWord(r rune) bool {
	return r == '_' || (r >= '0' && r <= '9') || (r >= 'a' && r <= 'z') || (r >= 'A' && r <= 'Z')
}

func ecmaSpace(r rune) bool {
	switch {
	case r >= 9 && r <= 13, r == 0x20, r == 0xa0, r == 0x1680, r >= 0x2000 && r <= 0x200a,
		r == 0x2028, r == 0x2029, r == 0x202f, r == 0x205f, r == 0x3000, r == 0xfeff:
		return true
	}
	return false
}

func re2Space(r rune) bool {
	return r == '\t' || r == '\n' || r == '\f' || r == '\r' || r == ' '
}

// Orbit calls f with every rune case-equivalent to r other than r itself.
func Orbit(r rune, f func(rune) bool) bool {
	for c := unicode.SimpleFold(r); c != r; c = unicode.SimpleFold(c) {
		if f(c) {
			return true
		}
	}
	return false
}

// SameFold reports whether a and b are in the same simple case-fold orbit.
func SameFold(a, b rune) bool {
	if a == b {
		return true
	}
	return Orbit(a, func(c rune) bool { return c == b })
}

func posix(name string, r rune) bool {
	if r > 0x7f {
		return false
	}
	switch name {
	case "alpha":
		return (r >= 'a' && r <= 'z') || (r >= 'A' && r <= 'Z')
	case "digit":
		return r >= '0' && r <= '9'
	case "alnum":
		return (r >= 'a' && r <= 'z') || (r >= 'A' && r <= 'Z') || (r >= '0' && r <= '9')
	case "upper":
		return r >= 'A' && r <= 'Z'
	case "lower":
		return r >= 'a' && r <= 'z'
	case "space":
		return r == ' ' || (r >= 9 && r <= 13)
	case "punct":
		return (r >= '!' && r <= '/') || (r >= ':' && r <= '@') || (r >= '[' && r <= '`') || (r >= '{' && r <= '~')
	case "word":
		return asciiWord(r)
	case "xdigit":
		return (r >= '0' && r <= '9') || (r >= 'a' && r <= 'f') || (r >= 'A' && r <= 'F')
	case "blank":
		return r == ' ' || r == '\t'
	case "cntrl":
		return r < 0x20 || r == 0x7f
	case "graph":
		return r >= '!' && r <= '~'
	case "print":
		return r >= ' ' && r <= '~'
	case "ascii":
		return true
	}
	return false
}

// Table resolves a \p{Name}.
func Table(name string) *unicode.RangeTable {
	if t, ok := unicode.Categories[name]; ok {
		return t
	}
	if t, ok := unicode.Scripts[name]; ok {
		return t
	}
	if t, ok := unicode.Properties[name]; ok {
		return t
	}
	return nil
}

// ItemHas is plain membership of r in one class item.
func ItemHas(it gen.ClassItem, r rune, d Dialect) bool {
	switch it.T {
	case "r":
		return r == it.Lo
	case "range":
		return r >= it.Lo && r <= it.Hi
	case "esc":
		var in bool
		switch it.Name {
		case "d", "D":
			if d.RE2 || d.ECMA {
				in = r >= '0' && r <= '9'
			} else {
				in = unicode.Is(unicode.Nd, r)
			}
		case "w", "W":
			if d.RE2 || d.ECMA {
				in = asciiWord(r)
			} else {
				in = IsWord(r)
			}
		case "s", "S":
			switch {
			case d.ECMA:
				in = ecmaSpace(r)
			case d.RE2:
				in = re2Space(r)
			default:
				in = unicode.IsSpace(r)
			}
		}
		if it.Name == "D" || it.Name == "W" || it.Name == "S" {
			return !in
		}
		return in
	case "prop":
		t := Table(it.Name)
		in := t != nil && unicode.Is(t, r)
		return in != it.Neg
	case "posix":
		return posix(it.Name, r) != it.Neg
	}
	return false
}

// ClassMatch is set algebra for a bracket class: union of the items (closed
// under case equivalence for runes and ranges when ic), optional negation,
// minus the subtracted class.
func ClassMatch(n *gen.Node, r rune, ic bool, d Dialect) bool {
	inner := false
	for _, it := range n.Items {
		if ic && it.T == "esc" && (d.RE2 || d.ECMA) && (it.Name == "D" || it.Name == "W" || it.Name == "S") {
			// a negated dialect shorthand under IgnoreCase is the complement of the case closure of
			// the positive class (not the closure of the complement)
			pos := gen.ClassItem{T: "esc", Name: strings.ToLower(it.Name)}
			if !(ItemHas(pos, r, d) || Orbit(r, func(c rune) bool { return ItemHas(pos, c, d) })) {
				inner = true
				break
			}
			continue
		}
		if ic && it.T == "prop" && (it.Name == "Lu" || it.Name == "Ll" || it.Name == "Lt") {
			// under IgnoreCase the three cased-letter categories stand for all cased letters
			if unicode.In(r, unicode.Lu, unicode.Ll, unicode.Lt) != it.Neg {
				inner = true
				break
			}
			continue
		}
		if ItemHas(it, r, d) {
			inner = true
			break
		}
		if ic {
			expand := it.T == "r" || it.T == "range" || (it.T == "posix") ||
				(it.T == "esc" && (d.RE2 || d.ECMA)) // dialect shorthands are plain ranges
			if expand && Orbit(r, func(c rune) bool { return ItemHas(it, c, d) }) {
				inner = true
				break
			}
		}
	}
	res := inner != n.Neg
	if res && n.Sub != nil && ClassMatch(n.Sub, r, ic, d) {
		return false
	}
	return res
}
