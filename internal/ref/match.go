package ref

import (
	"errors"
	"fmt"
	"strings"
	"unicode"

	"verif/internal/gen"
)

// Span is one capture.
type Span struct{ Index, Length int }

type capNode struct {
	span Span
	prev *capNode
}

// Caps is a persistent per-group capture list (newest first); backtracking
// simply drops the newer version.
type Caps []*capNode

func (c Caps) push(g int, s Span) Caps {
	n := make(Caps, len(c))
	copy(n, c)
	n[g] = &capNode{s, c[g]}
	return n
}

// Result of a reference search.
type Result struct {
	Found  bool
	Groups map[int][]Span // group number -> ordered captures (oldest first); group 0 is the match
}

// String renders the result canonically: "nil" or "0:(i,l);1:(i,l)(i,l);…"
func (r *Result) String(numbers []int) string {
	if !r.Found {
		return "nil"
	}
	var sb strings.Builder
	for _, g := range numbers {
		fmt.Fprintf(&sb, "%d:", g)
		for _, s := range r.Groups[g] {
			fmt.Fprintf(&sb, "(%d,%d)", s.Index, s.Length)
		}
		sb.WriteByte(';')
	}
	return sb.String()
}

// ErrBudget is returned when the step budget is exhausted (case inconclusive).
var ErrBudget = errors.New("reference step budget exhausted")

// Matcher runs the specification over one text.
type Matcher struct {
	Text          []rune
	Origin        int // what \G refers to
	D             Dialect
	Budget        int
	steps         int
	maxCap        int
	ASCIIBoundary bool // \b uses ASCII word characters (Go's regexp); the engine always uses Unicode ones
}

type budgetPanic struct{}

func (m *Matcher) wordAt(i int) bool {
	if i < 0 || i >= len(m.Text) {
		return false
	}
	if m.ASCIIBoundary {
		return asciiWord(m.Text[i])
	}
	return IsWord(m.Text[i])
}

func (m *Matcher) boundary(p int) bool { return m.wordAt(p-1) != m.wordAt(p) }

func (m *Matcher) match(n *gen.Node, pos int, caps Caps, dir int, k func(int, Caps) bool) bool {
	m.steps++
	if m.steps > m.Budget {
		panic(budgetPanic{})
	}
	t := m.Text
	one := func(ok func(r rune) bool) bool {
		if dir > 0 {
			if pos < len(t) && ok(t[pos]) {
				return k(pos+1, caps)
			}
			return false
		}
		if pos > 0 && ok(t[pos-1]) {
			return k(pos-1, caps)
		}
		return false
	}
	switch n.K {
	case gen.KEmpty, gen.KOptSet, gen.KComment:
		return k(pos, caps)
	case gen.KLit:
		return one(func(r rune) bool {
			if n.E.IC {
				return SameFold(r, n.R)
			}
			return r == n.R
		})
	case gen.KAny:
		return one(func(r rune) bool { return n.E.SL || r != '\n' })
	case gen.KClass:
		return one(func(r rune) bool { return ClassMatch(n, r, n.E.IC, m.D) })
	case gen.KAnchor:
		ok := false
		switch n.Anchor {
		case "^":
			ok = pos == 0 || (n.E.ML && t[pos-1] == '\n')
		case "$":
			switch {
			case n.E.ML:
				ok = pos == len(t) || t[pos] == '\n'
			case m.D.RE2 || m.D.ECMA:
				ok = pos == len(t)
			default:
				ok = pos == len(t) || (pos == len(t)-1 && t[pos] == '\n')
			}
		case `\A`:
			ok = pos == 0
		case `\z`:
			ok = pos == len(t)
		case `\Z`:
			if m.D.RE2 || m.D.ECMA {
				ok = pos == len(t)
			} else {
				ok = pos == len(t) || (pos == len(t)-1 && t[pos] == '\n')
			}
		case `\b`:
			ok = m.boundary(pos)
		case `\B`:
			ok = !m.boundary(pos)
		case `\G`:
			ok = pos == m.Origin
		default:
			panic("ref: unknown anchor " + n.Anchor)
		}
		if ok {
			return k(pos, caps)
		}
		return false
	case gen.KConcat:
		var step func(i int, p int, c Caps) bool
		if dir > 0 {
			step = func(i int, p int, c Caps) bool {
				if i == len(n.Kids) {
					return k(p, c)
				}
				return m.match(n.Kids[i], p, c, dir, func(p2 int, c2 Caps) bool { return step(i+1, p2, c2) })
			}
			return step(0, pos, caps)
		}
		step = func(i int, p int, c Caps) bool {
			if i < 0 {
				return k(p, c)
			}
			return m.match(n.Kids[i], p, c, dir, func(p2 int, c2 Caps) bool { return step(i-1, p2, c2) })
		}
		return step(len(n.Kids)-1, pos, caps)
	case gen.KAlt:
		for _, kid := range n.Kids {
			if m.match(kid, pos, caps, dir, k) {
				return true
			}
		}
		return false
	case gen.KRepeat:
		var rep func(count, p int, c Caps) bool
		rep = func(count, p int, c Caps) bool {
			more := func() bool {
				if n.Max >= 0 && count >= n.Max {
					return false
				}
				return m.match(n.Kids[0], p, c, dir, func(p2 int, c2 Caps) bool {
					if p2 == p {
						// an empty iteration: outside the fragment the specification covers
						return false
					}
					return rep(count+1, p2, c2)
				})
			}
			if count < n.Min {
				return more()
			}
			if n.Lazy {
				return k(p, c) || more()
			}
			return more() || k(p, c)
		}
		return rep(0, pos, caps)
	case gen.KOptGroup:
		return m.match(n.Kids[0], pos, caps, dir, k)
	case gen.KGroup:
		if n.Cap == 0 {
			return m.match(n.Kids[0], pos, caps, dir, k)
		}
		return m.match(n.Kids[0], pos, caps, dir, func(p2 int, c2 Caps) bool {
			a, b := pos, p2
			if b < a {
				a, b = b, a
			}
			return k(p2, c2.push(n.Cap, Span{a, b - a}))
		})
	case gen.KAtomic:
		var rp int
		var rc Caps
		if !m.match(n.Kids[0], pos, caps, dir, func(p2 int, c2 Caps) bool { rp, rc = p2, c2; return true }) {
			return false
		}
		return k(rp, rc)
	case gen.KLook:
		d := -1
		if n.Ahead {
			d = 1
		}
		var rc Caps
		ok := m.match(n.Kids[0], pos, caps, d, func(p2 int, c2 Caps) bool { rc = c2; return true })
		if n.Neg {
			if ok {
				return false
			}
			return k(pos, caps)
		}
		if !ok {
			return false
		}
		return k(pos, rc)
	case gen.KBackref:
		c := caps[n.Cap]
		if c == nil {
			return false
		}
		eq := func(a, b rune) bool {
			if n.E.IC {
				return SameFold(a, b)
			}
			return a == b
		}
		L := c.span.Length
		if dir > 0 {
			if pos+L > len(t) {
				return false
			}
			for i := 0; i < L; i++ {
				if !eq(t[c.span.Index+i], t[pos+i]) {
					return false
				}
			}
			return k(pos+L, caps)
		}
		if pos-L < 0 {
			return false
		}
		for i := 0; i < L; i++ {
			if !eq(t[c.span.Index+i], t[pos-L+i]) {
				return false
			}
		}
		return k(pos-L, caps)
	case gen.KCondRef:
		if caps[n.Cap] != nil {
			return m.match(n.Kids[0], pos, caps, dir, k)
		}
		return m.match(n.Kids[1], pos, caps, dir, k)
	case gen.KCondExpr:
		look := n.Kids[0]
		d := -1
		if look.Ahead {
			d = 1
		}
		if n.Bare && look.Ahead && !look.Neg {
			// the bare spelling (?(expr)yes|no) is not a look-ahead but a zero-width test in the
			// direction the enclosing context runs in (backwards inside a look-behind or under RightToLeft)
			d = dir
		}
		var rc Caps
		ok := m.match(look.Kids[0], pos, caps, d, func(p2 int, c2 Caps) bool { rc = c2; return true })
		cond := ok != look.Neg
		c := caps
		if ok && !look.Neg {
			c = rc
		}
		if cond {
			return m.match(n.Kids[1], pos, c, dir, k)
		}
		return m.match(n.Kids[2], pos, c, dir, k)
	}
	panic(fmt.Sprintf("ref: node kind %d is outside the specification", n.K))
}

// Find runs the leftmost (or, for rtl, rightmost-first) priority-ordered search
// from startAt. maxGroup is the highest group number.
func (m *Matcher) Find(root *gen.Node, maxGroup, startAt int, rtl bool) (res *Result, err error) {
	defer func() {
		if r := recover(); r != nil {
			if _, ok := r.(budgetPanic); ok {
				res, err = nil, ErrBudget
				return
			}
			panic(r)
		}
	}()
	if m.Budget == 0 {
		m.Budget = 2000000
	}
	m.steps = 0
	m.Origin = startAt
	dir, stop, bump := 1, len(m.Text), 1
	if rtl {
		dir, stop, bump = -1, 0, -1
	}
	for p := startAt; ; p += bump {
		r, ok := m.attempt(root, maxGroup, p, dir)
		if ok {
			return r, nil
		}
		if p == stop {
			return &Result{}, nil
		}
	}
}

// AttemptAt makes one attempt at position p.
func (m *Matcher) AttemptAt(root *gen.Node, maxGroup, p, origin int, rtl bool) (res *Result, err error) {
	defer func() {
		if r := recover(); r != nil {
			if _, ok := r.(budgetPanic); ok {
				res, err = nil, ErrBudget
				return
			}
			panic(r)
		}
	}()
	if m.Budget == 0 {
		m.Budget = 2000000
	}
	m.steps = 0
	m.Origin = origin
	dir := 1
	if rtl {
		dir = -1
	}
	r, ok := m.attempt(root, maxGroup, p, dir)
	if ok {
		return r, nil
	}
	return &Result{}, nil
}

func (m *Matcher) attempt(root *gen.Node, maxGroup, p, dir int) (*Result, bool) {
	var out *Result
	found := m.match(root, p, make(Caps, maxGroup+1), dir, func(e int, c Caps) bool {
		a, b := p, e
		if b < a {
			a, b = b, a
		}
		out = &Result{Found: true, Groups: map[int][]Span{0: {{a, b - a}}}}
		for g := 1; g <= maxGroup; g++ {
			var spans []Span
			for x := c[g]; x != nil; x = x.prev {
				spans = append(spans, x.span)
			}
			for i, j := 0, len(spans)-1; i < j; i, j = i+1, j-1 {
				spans[i], spans[j] = spans[j], spans[i]
			}
			if len(spans) > 0 {
				out.Groups[g] = spans
			}
		}
		return true
	})
	return out, found
}

// Steps reports the steps used by the last search.
func (m *Matcher) Steps() int { return m.steps }

var _ = unicode.MaxRune
