package ref

import (
	"strings"
	"unicode"
)

// GroupTable describes the groups of a compiled pattern as the public API
// reports them (GetGroupNumbers / GetGroupNames, aligned).
type GroupTable struct {
	Numbers []int
	Names   []string
	// ECMA selects the ECMAScript rule for an unbraced $ followed by digits: the longest prefix of
	// the digit run that is a group number is the reference, the remaining digits are literal text
	ECMA bool
}

func (g *GroupTable) slotOfNumber(n int) int {
	for i, x := range g.Numbers {
		if x == n {
			return i
		}
	}
	return -1
}

func (g *GroupTable) slotOfName(s string) int {
	for i, x := range g.Names {
		if x == s && x != "" {
			return i
		}
	}
	return -1
}

// MatchView is what the $-expander needs from one match.
type MatchView struct {
	Input  []rune
	Index  int
	Length int
	Groups []string // value of each group slot: text of its last capture, "" when it has none
}

func isNameRune(r rune) bool {
	return unicode.In(r, unicode.L, unicode.Mn, unicode.Nd, unicode.Pc) || r == 0x200D || r == 0x200C
}

// ReplacementOverflows reports whether a $ or ${ in repl (read with the same
// left-to-right scan as Expand) is followed by a run of digits whose value does
// not fit a 32-bit group number. The engine, like .NET, rejects such a
// replacement string with "capture group number out of range".
func ReplacementOverflows(repl string) bool {
	r := []rune(repl)
	for i := 0; i < len(r); i++ {
		if r[i] != '$' || i+1 >= len(r) {
			continue
		}
		if r[i+1] == '$' {
			i++
			continue
		}
		j := i + 1
		if r[j] == '{' {
			j++
		}
		n := int64(0)
		for ; j < len(r) && r[j] >= '0' && r[j] <= '9'; j++ {
			n = n*10 + int64(r[j]-'0')
			if n > 1<<31-1 {
				return true
			}
		}
	}
	return false
}

// Expand evaluates a replacement string against one match following the
// documented $-grammar: $n, ${n}, ${name}, $$, $&, $`, $', $+, $_; a reference
// to a group that does not exist, and any other $, stays literal.
func Expand(repl string, gt *GroupTable, m *MatchView) string {
	r := []rune(repl)
	var sb strings.Builder
	for i := 0; i < len(r); i++ {
		if r[i] != '$' {
			sb.WriteRune(r[i])
			continue
		}
		if i+1 >= len(r) {
			sb.WriteRune('$')
			continue
		}
		c := r[i+1]
		switch {
		case c == '$':
			sb.WriteRune('$')
			i++
		case c == '&':
			sb.WriteString(string(m.Input[m.Index : m.Index+m.Length]))
			i++
		case c == '`':
			sb.WriteString(string(m.Input[:m.Index]))
			i++
		case c == '\'':
			sb.WriteString(string(m.Input[m.Index+m.Length:]))
			i++
		case c == '+':
			if len(m.Groups) > 0 {
				sb.WriteString(m.Groups[len(m.Groups)-1])
			}
			i++
		case c == '_':
			sb.WriteString(string(m.Input))
			i++
		case c >= '0' && c <= '9' && gt.ECMA:
			best, bestEnd := -1, i
			n := 0
			for j := i + 1; j < len(r) && r[j] >= '0' && r[j] <= '9' && n < 1<<40; j++ {
				n = n*10 + int(r[j]-'0')
				if s := gt.slotOfNumber(n); s >= 0 {
					best, bestEnd = s, j
				}
			}
			if best >= 0 {
				sb.WriteString(m.Groups[best])
				i = bestEnd
			} else {
				sb.WriteRune('$')
			}
		case c >= '0' && c <= '9':
			j := i + 1
			n := 0
			for j < len(r) && r[j] >= '0' && r[j] <= '9' && n < 1<<40 {
				n = n*10 + int(r[j]-'0')
				j++
			}
			if s := gt.slotOfNumber(n); s >= 0 && (j >= len(r) || r[j] < '0' || r[j] > '9') {
				sb.WriteString(m.Groups[s])
				i = j - 1
			} else {
				sb.WriteRune('$')
			}
		case c == '{':
			j := i + 2
			slot := -1
			if j < len(r) && r[j] >= '0' && r[j] <= '9' {
				n := 0
				for j < len(r) && r[j] >= '0' && r[j] <= '9' && n < 1<<40 {
					n = n*10 + int(r[j]-'0')
					j++
				}
				if j < len(r) && r[j] == '}' {
					slot = gt.slotOfNumber(n)
				}
			} else if j < len(r) && isNameRune(r[j]) {
				k := j
				for k < len(r) && isNameRune(r[k]) {
					k++
				}
				if k < len(r) && r[k] == '}' {
					slot = gt.slotOfName(string(r[j:k]))
					j = k
				}
			}
			if slot >= 0 {
				sb.WriteString(m.Groups[slot])
				i = j
			} else {
				sb.WriteRune('$')
			}
		default:
			sb.WriteRune('$')
		}
	}
	return sb.String()
}
