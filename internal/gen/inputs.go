package gen

import (
	"math/rand"
	"unicode"
)

// Alphabet derives the input alphabet of a pattern: its literal runes and class
// endpoints (plus their other case under IgnoreCase), a digit / underscore /
// space when shorthand classes occur, '\n' when anchors or '.' occur, and one
// outsider.
func Alphabet(root *Node, pairOnly bool) []rune {
	seen := map[rune]bool{}
	var out []rune
	add := func(r rune) {
		if r < 0 || r > unicode.MaxRune || (r >= 0xD800 && r <= 0xDFFF) {
			return
		}
		if !seen[r] {
			seen[r] = true
			out = append(out, r)
		}
	}
	nl := false
	ic := false
	root.Walk(func(n *Node) {
		if n.E.IC {
			ic = true
		}
		switch n.K {
		case KLit:
			add(n.R)
		case KAny:
			nl = true
		case KAnchor:
			nl = true
			if n.Anchor == `\b` || n.Anchor == `\B` {
				add(' ')
			}
		case KClass:
			var items func(c *Node)
			items = func(c *Node) {
				for _, it := range c.Items {
					switch it.T {
					case "r":
						add(it.Lo)
					case "range":
						add(it.Lo)
						add(it.Hi)
						if it.Lo > 0 {
							add(it.Lo - 1)
						}
						add(it.Hi + 1)
					case "esc":
						switch it.Name {
						case "d", "D":
							add('1')
						case "w", "W":
							add('_')
							add('1')
						case "s", "S":
							add(' ')
						}
					case "prop":
						switch it.Name {
						case "Lu":
							add('Q')
						case "Ll":
							add('q')
						case "Greek":
							add('λ')
						case "Cyrillic":
							add('ж')
						case "Nd", "N":
							add('7')
						case "P":
							add('!')
						default:
							add('q')
						}
					case "posix":
						add('q')
						add('Q')
						add('3')
						add(' ')
						add('!')
					}
				}
				if c.Sub != nil {
					items(c.Sub)
				}
			}
			items(n)
		}
	})
	if ic {
		for _, r := range append([]rune(nil), out...) {
			add(OtherCase(r))
		}
	}
	if nl {
		add('\n')
	}
	add('!')
	return out
}

// Exhaustive calls f with every string of length 0..maxLen over alpha.
func Exhaustive(alpha []rune, maxLen int, f func([]rune)) {
	buf := make([]rune, 0, maxLen)
	var rec func()
	rec = func() {
		f(buf)
		if len(buf) == maxLen {
			return
		}
		for _, r := range alpha {
			buf = append(buf, r)
			rec()
			buf = buf[:len(buf)-1]
		}
	}
	rec()
}

// CountExhaustive is the number of strings Exhaustive produces.
func CountExhaustive(k, maxLen int) int {
	n, p := 0, 1
	for i := 0; i <= maxLen; i++ {
		n += p
		p *= k
	}
	return n
}

// Decorations are runes that exercise width and category handling.
var Decorations = []rune{'é', 'ß', 'λ', 'ж', '中', 0x0301 /* combining acute */, 0x1F600, 0x10000, 0xFFFD, 0, '\n', '\r', '\t', ' ', '_', '7', 0x200D}

// PairDecorations is the subset usable under IgnoreCase (no letters outside the
// simple-pair pools).
var PairDecorations = []rune{0x0301, 0x1F600, '\n', ' ', '_', '7', '!', 0xFFFD}

// Sampler produces a string the sub-pattern is likely to match (it ignores
// look-arounds, anchors and the interplay of back-references).
type Sampler struct {
	R     *rand.Rand
	Alpha []rune
	IC    bool
	caps  map[int][]rune
	Class func(n *Node, r rune) bool // membership oracle, optional
	Limit int                        // longest text emitted (0 = 160)
}

func (s *Sampler) limit() int {
	if s.Limit > 0 {
		return s.Limit
	}
	return 160
}

func (s *Sampler) pickClass(n *Node) rune {
	// try the alphabet and a few extras for a member
	cands := append([]rune(nil), s.Alpha...)
	cands = append(cands, 'a', 'b', 'Z', '0', '_', ' ', '-', 'é', 'λ')
	s.R.Shuffle(len(cands), func(i, j int) { cands[i], cands[j] = cands[j], cands[i] })
	if s.Class != nil {
		for _, c := range cands {
			if s.Class(n, c) {
				return c
			}
		}
	}
	return cands[0]
}

func (s *Sampler) emit(n *Node, out []rune) []rune {
	if len(out) > s.limit() {
		return out // nested repeats and back-references multiply; inputs are capped anyway
	}
	switch n.K {
	case KLit:
		r := n.R
		if n.E.IC && s.R.Intn(2) == 0 {
			r = OtherCase(r)
		}
		return append(out, r)
	case KAny:
		return append(out, s.Alpha[s.R.Intn(len(s.Alpha))])
	case KClass:
		return append(out, s.pickClass(n))
	case KConcat:
		for _, k := range n.Kids {
			out = s.emit(k, out)
		}
		return out
	case KAlt:
		return s.emit(n.Kids[s.R.Intn(len(n.Kids))], out)
	case KRepeat:
		cnt := n.Min
		hi := n.Max
		if hi < 0 || hi > n.Min+3 {
			hi = n.Min + 3
		}
		if hi > cnt {
			cnt += s.R.Intn(hi - cnt + 1)
		}
		for i := 0; i < cnt; i++ {
			out = s.emit(n.Kids[0], out)
		}
		return out
	case KGroup, KBalance:
		start := len(out)
		out = s.emit(n.Kids[0], out)
		if n.Cap > 0 {
			if s.caps == nil {
				s.caps = map[int][]rune{}
			}
			s.caps[n.Cap] = append([]rune(nil), out[start:]...)
		}
		return out
	case KAtomic, KOptGroup:
		return s.emit(n.Kids[0], out)
	case KBackref:
		return append(out, s.caps[n.Cap]...)
	case KCondRef:
		if _, ok := s.caps[n.Cap]; ok {
			return s.emit(n.Kids[0], out)
		}
		return s.emit(n.Kids[1], out)
	case KCondExpr:
		return s.emit(n.Kids[1+s.R.Intn(2)], out)
	case KLook:
		if n.Ahead && !n.Neg && s.R.Intn(2) == 0 {
			return s.emit(n.Kids[0], out)
		}
		if !n.Ahead && !n.Neg && s.R.Intn(3) != 0 {
			// the text a look-behind wants directly in front of what follows
			return s.emit(n.Kids[0], out)
		}
	}
	return out
}

// Directed returns a string built from a walk over the pattern, surrounded by
// noise and then locally damaged to create near-misses.
func (s *Sampler) Directed(root *Node, extra []rune) []rune {
	s.caps = nil
	noise := func(n int) []rune {
		var o []rune
		for i := 0; i < n; i++ {
			if len(extra) > 0 && s.R.Intn(3) == 0 {
				o = append(o, extra[s.R.Intn(len(extra))])
			} else {
				o = append(o, s.Alpha[s.R.Intn(len(s.Alpha))])
			}
		}
		return o
	}
	out := noise(s.R.Intn(4))
	out = s.emit(root, out)
	if s.R.Intn(3) == 0 {
		out = s.emit(root, out) // a second occurrence
	}
	out = append(out, noise(s.R.Intn(4))...)
	// damage
	for d := s.R.Intn(3); d > 0 && len(out) > 0; d-- {
		i := s.R.Intn(len(out))
		switch s.R.Intn(4) {
		case 0:
			out = append(out[:i], out[i+1:]...)
		case 1:
			out = append(out[:i], append(noise(1), out[i:]...)...)
		case 2:
			out[i] = noise(1)[0]
		case 3:
			out = out[:i]
		}
	}
	if mx := s.limit() - 30; len(out) > mx {
		out = out[:mx]
	}
	return out
}
