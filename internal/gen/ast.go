// Package gen holds the typed pattern AST the harness generates patterns from,
// its printer, the option-annotation and group-numbering passes, random
// generators driven by profiles, shape templates and input generators.
//
// Patterns are always printed from ASTs; the harness never parses a pattern, so
// the intended structure of every generated pattern is known to the oracles.
package gen

import (
	"fmt"
	"strconv"
	"strings"
)

type Kind int

const (
	KEmpty    Kind = iota
	KLit           // one rune
	KAny           // .
	KClass         // [...]
	KAnchor        // ^ $ \A \Z \z \b \B \G
	KConcat        // sequence
	KAlt           // a|b
	KRepeat        // x{min,max} greedy or lazy; Max == -1 is unbounded
	KGroup         // capturing (unnamed, named, numbered) or (?:...)
	KLook          // (?=..) (?!..) (?<=..) (?<!..)
	KAtomic        // (?>...)
	KBackref       // \1 \k<name>
	KCondRef       // (?(1)yes|no) / (?(name)yes|no)
	KCondExpr      // (?(?=x)yes|no)  Kids: look, yes, no
	KOptGroup      // (?i-m:...)
	KOptSet        // (?i-m)
	KComment       // (?#...)
	KBalance       // (?<a-b>...) (?<-b>...)
)

// Option letters tracked by the annotation pass.
type Env struct {
	IC, ML, SL, N, X bool
}

// ClassItem is one member of a bracket class.
type ClassItem struct {
	T    string `json:"t"`            // "r" rune, "range", "esc" (d D w W s S), "prop" (\p{Name}), "posix" ([:name:])
	Lo   rune   `json:"lo,omitempty"` // rune / range start
	Hi   rune   `json:"hi,omitempty"`
	Name string `json:"name,omitempty"`
	Neg  bool   `json:"neg,omitempty"` // \P{..}, [:^name:]
	Sp   int    `json:"sp,omitempty"`  // spelling variant of runes
}

type Node struct {
	K      Kind        `json:"k"`
	R      rune        `json:"r,omitempty"`
	Sp     int         `json:"sp,omitempty"` // spelling variant for KLit
	Neg    bool        `json:"neg,omitempty"`
	Items  []ClassItem `json:"items,omitempty"`
	Sub    *Node       `json:"sub,omitempty"` // class subtraction
	Anchor string      `json:"anchor,omitempty"`
	Kids   []*Node     `json:"kids,omitempty"`
	Min    int         `json:"min,omitempty"`
	Max    int         `json:"max,omitempty"`
	Lazy   bool        `json:"lazy,omitempty"`

	// groups
	Capture bool   `json:"capture,omitempty"` // written as a capturing group
	Name    string `json:"name,omitempty"`    // (?<name>...)
	Num     int    `json:"num,omitempty"`     // explicit number (?<5>...) when > 0
	GID     int    `json:"gid,omitempty"`     // generation id of a capturing group (1-based, textual order)
	Quote   bool   `json:"quote,omitempty"`   // (?'name'...) spelling
	PName   bool   `json:"pname,omitempty"`   // (?P<name>...) spelling
	Zeros   int    `json:"zeros,omitempty"`   // leading zeros written before an explicit number: (?<05>...)

	// references
	Ref    int  `json:"ref,omitempty"`    // GID of the referenced group
	ByName bool `json:"byname,omitempty"` // \k<name> / (?(name)...)

	Ahead bool `json:"ahead,omitempty"`
	Bare  bool `json:"bare,omitempty"` // KCondExpr with a positive look-ahead condition written (?(cond)yes|no)

	On   string `json:"on,omitempty"` // option letters switched on/off by KOptGroup / KOptSet
	Off  string `json:"off,omitempty"`
	Text string `json:"text,omitempty"` // comment text

	// filled by Annotate / Number
	E   Env `json:"-"`
	Cap int `json:"-"` // group number after Number (0 = does not capture)
}

// Clone makes a deep copy.
func (n *Node) Clone() *Node {
	if n == nil {
		return nil
	}
	c := *n
	c.Items = append([]ClassItem(nil), n.Items...)
	c.Sub = n.Sub.Clone()
	c.Kids = make([]*Node, len(n.Kids))
	for i, k := range n.Kids {
		c.Kids[i] = k.Clone()
	}
	return &c
}

// Walk visits every node in textual order.
func (n *Node) Walk(f func(*Node)) {
	if n == nil {
		return
	}
	f(n)
	for _, k := range n.Kids {
		k.Walk(f)
	}
}

func (n *Node) Size() int {
	c := 0
	n.Walk(func(*Node) { c++ })
	return c
}

// ---------------------------------------------------------------------------
// option annotation: stamps the options in effect on every node, following the
// textual scoping rule: (?i) holds until the end of the enclosing group.

func applyLetters(e Env, on, off string) Env {
	set := func(c rune, v bool) {
		switch c {
		case 'i':
			e.IC = v
		case 'm':
			e.ML = v
		case 's':
			e.SL = v
		case 'n':
			e.N = v
		case 'x':
			e.X = v
		}
	}
	for _, c := range on {
		set(c, true)
	}
	for _, c := range off {
		set(c, false)
	}
	return e
}

// Annotate stamps E on all nodes given the compile-time options.
func Annotate(root *Node, e Env) {
	annotate(root, e)
}

func annotate(n *Node, e Env) Env {
	n.E = e
	switch n.K {
	case KOptSet:
		return applyLetters(e, n.On, n.Off)
	case KConcat, KAlt:
		for _, k := range n.Kids {
			e = annotate(k, e)
		}
		return e
	case KRepeat:
		annotate(n.Kids[0], e)
		return e
	case KOptGroup:
		in := applyLetters(e, n.On, n.Off)
		n.E = in
		for _, k := range n.Kids {
			in = annotate(k, in)
		}
		return e
	case KGroup, KLook, KAtomic, KCondRef, KCondExpr, KBalance:
		in := e
		for _, k := range n.Kids {
			in = annotate(k, in)
		}
		return e
	case KClass:
		if n.Sub != nil {
			annotate(n.Sub, e)
		}
	}
	return e
}

// ---------------------------------------------------------------------------
// group numbering: the documented rule, computed on the AST.

// GroupInfo describes the numbering of one pattern.
type GroupInfo struct {
	Numbers []int          // sorted group numbers incl. 0
	Names   map[int]string // number -> name (numbers without a name map to their decimal string)
	ByName  map[string]int
	ByGID   map[int]int // generation id -> number (0 when the group does not capture)
	Max     int
}

// Number assigns Cap to every group node (after Annotate) and resolves the
// numbering. maintainOrder selects pattern-order numbering of named groups.
func Number(root *Node, maintainOrder bool) *GroupInfo {
	gi := &GroupInfo{Names: map[int]string{}, ByName: map[string]int{}, ByGID: map[int]int{}}
	used := map[int]bool{0: true}
	var groups []*Node
	root.Walk(func(n *Node) {
		if (n.K == KGroup && n.Capture) || (n.K == KBalance && n.Name != "") {
			groups = append(groups, n)
		}
	})
	autocap := 1
	var nameOrder []string
	nameSlot := map[string]int{}
	// first pass: unnamed and explicitly numbered groups (and, with
	// maintainOrder, names in pattern order)
	for _, g := range groups {
		switch {
		case g.Num > 0:
			used[g.Num] = true
			g.Cap = g.Num
			if maintainOrder && g.Num == autocap {
				autocap++
			}
		case g.Name != "":
			if _, ok := nameSlot[g.Name]; !ok {
				if maintainOrder {
					nameSlot[g.Name] = autocap
					used[autocap] = true
					autocap++
				} else {
					nameSlot[g.Name] = -1
				}
				nameOrder = append(nameOrder, g.Name)
			}
		default:
			if g.E.N {
				g.Cap = 0
				continue
			}
			g.Cap = autocap
			used[autocap] = true
			autocap++
		}
	}
	if !maintainOrder {
		for _, name := range nameOrder {
			for used[autocap] {
				autocap++
			}
			nameSlot[name] = autocap
			used[autocap] = true
			autocap++
		}
	}
	for _, g := range groups {
		if g.Name != "" && g.Num == 0 {
			g.Cap = nameSlot[g.Name]
		}
		gi.ByGID[g.GID] = g.Cap
	}
	for k := range used {
		gi.Numbers = append(gi.Numbers, k)
		if k > gi.Max {
			gi.Max = k
		}
	}
	sortInts(gi.Numbers)
	for _, k := range gi.Numbers {
		gi.Names[k] = strconv.Itoa(k)
	}
	for name, slot := range nameSlot {
		gi.Names[slot] = name
	}
	for k, v := range gi.Names {
		gi.ByName[v] = k
	}
	// resolve references
	root.Walk(func(n *Node) {
		switch n.K {
		case KBackref, KCondRef:
			n.Cap = gi.ByGID[n.Ref]
		case KBalance:
			// Cap = the pushed group (0 when anonymous); the popped group is RefCap
		}
	})
	return gi
}

func sortInts(a []int) {
	for i := 1; i < len(a); i++ {
		for j := i; j > 0 && a[j] < a[j-1]; j-- {
			a[j], a[j-1] = a[j-1], a[j]
		}
	}
}

// GroupByGID finds the group node with the given generation id.
func GroupByGID(root *Node, gid int) *Node {
	var r *Node
	root.Walk(func(n *Node) {
		if r == nil && n.GID == gid && (n.K == KGroup || n.K == KBalance) {
			r = n
		}
	})
	return r
}

// ---------------------------------------------------------------------------
// printer

// PrintOpts selects dialect-dependent spellings.
type PrintOpts struct {
	GoSyntax bool // restrict to spellings Go's regexp also accepts
	RawX     bool // print x-mode whitespace / # comments raw even where x is not in effect (C18)
}

type printer struct {
	sb      strings.Builder
	po      PrintOpts
	pending bool // last thing written was \N: a following digit must be separated
	root    *Node
}

// Print renders the AST as a pattern (after Annotate and Number).
func Print(root *Node, po PrintOpts) string {
	p := &printer{po: po, root: root}
	p.node(root)
	return p.sb.String()
}

func (p *printer) w(s string) {
	if s == "" {
		return
	}
	if p.pending && s[0] >= '0' && s[0] <= '9' {
		p.sb.WriteString("(?:)")
	}
	p.pending = false
	p.sb.WriteString(s)
}

const metaChars = `\.+*?()|[]{}^$#`

// LitString spells a literal rune outside a class.
func LitString(r rune, sp int, x bool, goSyntax bool) string {
	switch sp % 8 {
	case 1: // \xHH
		if r < 0x100 && r >= 0 {
			return fmt.Sprintf(`\x%02X`, r)
		}
	case 2: // \uHHHH
		if r <= 0xFFFF && !goSyntax {
			return fmt.Sprintf(`\u%04x`, r)
		}
	case 3: // \x{H}
		return fmt.Sprintf(`\x{%X}`, r)
	case 4:
		switch r {
		case '\n':
			return `\n`
		case '\t':
			return `\t`
		case '\r':
			return `\r`
		case '\f':
			return `\f`
		case '\v':
			return `\v`
		case 7:
			return `\a`
		case 0x1b:
			if !goSyntax {
				return `\e`
			}
		}
	case 5: // octal, three digits
		if r < 0o100 && r > 0 && !goSyntax {
			return fmt.Sprintf(`\0%02o`, r)
		}
	}
	if r == '\n' {
		return `\n`
	}
	if r == ' ' || r == '\t' || r == '\r' || r == '\f' || r == '\v' {
		if goSyntax {
			if r == ' ' {
				return " "
			}
			return fmt.Sprintf(`\x%02X`, r)
		}
		if r == ' ' {
			return `\ `
		}
		return fmt.Sprintf(`\x%02X`, r)
	}
	if r < 0x20 || r == 0x7f {
		return fmt.Sprintf(`\x%02X`, r)
	}
	if strings.ContainsRune(metaChars, r) {
		return `\` + string(r)
	}
	return string(r)
}

// ClassRune spells a rune inside a bracket class.
func ClassRune(r rune, sp int, goSyntax bool) string {
	switch sp % 4 {
	case 1:
		if r < 0x100 {
			return fmt.Sprintf(`\x%02X`, r)
		}
	case 2:
		if r <= 0xFFFF && !goSyntax {
			return fmt.Sprintf(`\u%04X`, r)
		}
	case 3:
		return fmt.Sprintf(`\x{%X}`, r)
	}
	if r == '\n' {
		return `\n`
	}
	// an escaped hyphen cannot start a range (upstream .NET behaviour as well), so
	// the hyphen is always spelled in hex inside a class
	if r < 0x20 || r == 0x7f || r == ' ' || r == '#' || r == '-' {
		return fmt.Sprintf(`\x%02X`, r)
	}
	if strings.ContainsRune(`\]^[`, r) {
		return `\` + string(r)
	}
	return string(r)
}

func (p *printer) class(n *Node) {
	if n.Sp == 1 && !n.Neg && n.Sub == nil && len(n.Items) == 1 && (n.Items[0].T == "esc" || n.Items[0].T == "prop") {
		it := n.Items[0]
		switch {
		case it.T == "esc":
			p.w(`\` + it.Name)
		case it.Neg:
			p.w(`\P{` + it.Name + `}`)
		default:
			p.w(`\p{` + it.Name + `}`)
		}
		return
	}
	p.w("[")
	if n.Neg {
		p.w("^")
	}
	for _, it := range n.Items {
		switch it.T {
		case "r":
			p.w(ClassRune(it.Lo, it.Sp, p.po.GoSyntax))
		case "range":
			p.w(ClassRune(it.Lo, it.Sp, p.po.GoSyntax) + "-" + ClassRune(it.Hi, it.Sp/4, p.po.GoSyntax))
		case "esc":
			p.w(`\` + it.Name)
		case "prop":
			if it.Neg {
				p.w(`\P{` + it.Name + `}`)
			} else {
				p.w(`\p{` + it.Name + `}`)
			}
		case "posix":
			if it.Neg {
				p.w(`[:^` + it.Name + `:]`)
			} else {
				p.w(`[:` + it.Name + `:]`)
			}
		}
	}
	if n.Sub != nil {
		p.w("-")
		p.class(n.Sub)
	}
	p.w("]")
}

func quant(n *Node) string {
	q := ""
	switch {
	case n.Min == 0 && n.Max == -1 && n.Sp%2 == 0:
		q = "*"
	case n.Min == 1 && n.Max == -1 && n.Sp%2 == 0:
		q = "+"
	case n.Min == 0 && n.Max == 1 && n.Sp%2 == 0:
		q = "?"
	case n.Max == -1:
		q = fmt.Sprintf("{%d,}", n.Min)
	case n.Min == n.Max:
		q = fmt.Sprintf("{%d}", n.Min)
	default:
		q = fmt.Sprintf("{%d,%d}", n.Min, n.Max)
	}
	if n.Lazy {
		q += "?"
	}
	return q
}

func (p *printer) refName(n *Node) string {
	g := GroupByGID(p.root, n.Ref)
	if g != nil && n.ByName && g.Name != "" {
		return g.Name
	}
	return strconv.Itoa(n.Cap)
}

func (p *printer) node(n *Node) {
	switch n.K {
	case KEmpty:
	case KLit:
		p.w(LitString(n.R, n.Sp, n.E.X, p.po.GoSyntax))
	case KAny:
		p.w(".")
	case KClass:
		p.class(n)
	case KAnchor:
		p.w(n.Anchor)
	case KConcat:
		for _, k := range n.Kids {
			if k.K == KAlt {
				p.w("(?:")
				p.node(k)
				p.w(")")
			} else {
				p.node(k)
			}
		}
	case KAlt:
		for i, k := range n.Kids {
			if i > 0 {
				p.w("|")
			}
			p.node(k)
		}
	case KRepeat:
		k := n.Kids[0]
		switch k.K {
		case KConcat, KAlt, KRepeat, KBackref, KEmpty, KOptSet, KComment:
			p.w("(?:")
			p.node(k)
			p.w(")")
		default:
			p.node(k)
		}
		p.pending = false
		p.w(quant(n))
	case KGroup:
		switch {
		case !n.Capture:
			p.w("(?:")
		case n.Num > 0 && n.PName:
			p.w("(?P<" + strings.Repeat("0", n.Zeros) + strconv.Itoa(n.Num) + ">")
		case n.Num > 0 && n.Quote:
			p.w("(?'" + strings.Repeat("0", n.Zeros) + strconv.Itoa(n.Num) + "'")
		case n.Num > 0:
			p.w("(?<" + strings.Repeat("0", n.Zeros) + strconv.Itoa(n.Num) + ">")
		case n.Name != "" && n.PName:
			p.w("(?P<" + n.Name + ">")
		case n.Name != "" && n.Quote:
			p.w("(?'" + n.Name + "'")
		case n.Name != "":
			p.w("(?<" + n.Name + ">")
		default:
			p.w("(")
		}
		p.node(n.Kids[0])
		p.w(")")
	case KBalance:
		ref := GroupByGID(p.root, n.Ref)
		rn := strconv.Itoa(ref.Cap)
		if ref.Name != "" && n.ByName {
			rn = ref.Name
		}
		p.w("(?<" + n.Name + "-" + rn + ">")
		p.node(n.Kids[0])
		p.w(")")
	case KAtomic:
		p.w("(?>")
		p.node(n.Kids[0])
		p.w(")")
	case KLook:
		p.w(lookOpen(n))
		p.node(n.Kids[0])
		p.w(")")
	case KBackref:
		if n.ByName || n.Sp%3 == 1 {
			p.w(`\k<` + p.refName(n) + `>`)
		} else {
			p.w(`\` + strconv.Itoa(n.Cap))
			p.pending = true
		}
	case KCondRef:
		p.w("(?(" + p.refName(n) + ")")
		p.branch(n.Kids[0])
		p.w("|")
		p.branch(n.Kids[1])
		p.w(")")
	case KCondExpr:
		if c := n.Kids[0]; n.Bare && c.Ahead && !c.Neg {
			// the bare spelling: the condition is an expression unless it reads as a group name or
			// number, so a condition starting with a word character is wrapped
			sub := &printer{po: p.po, root: p.root}
			sub.node(c.Kids[0])
			txt := sub.sb.String()
			p.w("(?(")
			if txt == "" || isWordByte(txt[0]) || txt[0] >= 0x80 || txt[0] == '?' {
				p.w("(?:" + txt + ")")
			} else {
				p.w(txt)
			}
			p.w(")")
			p.branch(n.Kids[1])
			p.w("|")
			p.branch(n.Kids[2])
			p.w(")")
			break
		}
		p.w("(?")
		p.w(lookOpen(n.Kids[0]))
		p.node(n.Kids[0].Kids[0])
		p.w(")")
		p.branch(n.Kids[1])
		p.w("|")
		p.branch(n.Kids[2])
		p.w(")")
	case KOptGroup:
		p.w("(?" + n.On)
		if n.Off != "" {
			p.w("-" + n.Off)
		}
		p.w(":")
		p.node(n.Kids[0])
		p.w(")")
	case KOptSet:
		p.w("(?" + n.On)
		if n.Off != "" {
			p.w("-" + n.Off)
		}
		p.w(")")
	case KComment:
		switch {
		case n.Sp == 1 && (n.E.X || p.po.RawX):
			p.w(" ")
		case n.Sp == 2 && (n.E.X || p.po.RawX):
			p.w("#" + n.Text + "\n")
		default:
			// this spelling ends at the first closing parenthesis
			p.w("(?#" + strings.ReplaceAll(n.Text, ")", "") + ")")
		}
	default:
		panic("gen: bad node kind")
	}
}

// branch prints a conditional branch; a bare alternation there would be read as
// extra branches, so it is wrapped.
func (p *printer) branch(k *Node) {
	if k.K == KAlt {
		p.w("(?:")
		p.node(k)
		p.w(")")
		return
	}
	p.node(k)
}

func isWordByte(b byte) bool {
	return b == '_' || (b >= '0' && b <= '9') || (b >= 'a' && b <= 'z') || (b >= 'A' && b <= 'Z')
}

func lookOpen(n *Node) string {
	s := "(?"
	if !n.Ahead {
		s += "<"
	}
	if n.Neg {
		return s + "!"
	}
	return s + "="
}
