package gen

// LocalForm returns an AST that means the same as root does under env but in
// which no option has a scope: every leaf whose meaning depends on i, m or s
// carries its own (?ims:...) wrapper, unnamed groups that n makes non-capturing
// are written (?:...), and option groups, option switches and comments are
// gone. It is meant to be compiled without any option. Comparing a pattern with
// its local form is an absolute test of option scoping: a switch that leaks out
// of its group, or is lost inside it, changes the pattern but not its local form.
func LocalForm(root *Node, env Env) *Node {
	c := root.Clone()
	Annotate(c, env)
	return localForm(c)
}

func localForm(n *Node) *Node {
	for i, k := range n.Kids {
		n.Kids[i] = localForm(k)
	}
	switch n.K {
	case KLit, KAny, KClass, KAnchor, KBackref:
		on := ""
		if n.E.IC {
			on += "i"
		}
		if n.E.ML {
			on += "m"
		}
		if n.E.SL {
			on += "s"
		}
		if on == "" {
			return n
		}
		return &Node{K: KOptGroup, On: on, Kids: []*Node{n}}
	case KGroup:
		if n.Capture && n.Name == "" && n.Num == 0 && n.E.N {
			n.Capture = false
		}
	case KOptGroup:
		return &Node{K: KGroup, Kids: n.Kids}
	case KOptSet, KComment:
		return &Node{K: KEmpty}
	case KCondExpr:
		// the engine (like .NET) rejects an inline-option construct that is a direct child of a
		// conditional's branch: keep the wrapped leaves one level down
		for i := 1; i < len(n.Kids); i++ {
			n.Kids[i] = &Node{K: KGroup, Kids: []*Node{n.Kids[i]}}
		}
	case KCondRef:
		for i := range n.Kids {
			n.Kids[i] = &Node{K: KGroup, Kids: []*Node{n.Kids[i]}}
		}
	}
	return n
}
