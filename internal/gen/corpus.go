package gen

import (
	"bufio"
	"encoding/json"
	"go/ast"
	"go/parser"
	"go/token"
	"math/rand"
	"os"
	"path/filepath"
	"sort"
	"strconv"
	"strings"
	"sync"
	"unicode/utf8"
)

// CorpusPattern is a pattern harvested from the repository under test.
type CorpusPattern struct {
	Src    string
	Opts   int      // RegexOptions recovered from the source (PCRE flags), 0 otherwise
	Inputs []string // inputs found next to the pattern
	From   string
}

// Corpus is everything harvested at run time.
type Corpus struct {
	Patterns []CorpusPattern
	Strings  []string // every harvested string (used as inputs / replacement strings)
}

var (
	corpusOnce sync.Once
	corpus     *Corpus
)

// LoadCorpus reads the test sources and corpora below repo (once per process).
func LoadCorpus(repo string) *Corpus {
	corpusOnce.Do(func() { corpus = loadCorpus(repo) })
	return corpus
}

const maxCorpusLen = 300

func loadCorpus(repo string) *Corpus {
	c := &Corpus{}
	seenP := map[string]bool{}
	seenS := map[string]bool{}
	addS := func(s string) {
		if len(s) == 0 || len(s) > maxCorpusLen || seenS[s] || !utf8.ValidString(s) {
			return
		}
		seenS[s] = true
		c.Strings = append(c.Strings, s)
	}
	addP := func(p CorpusPattern) {
		if len(p.Src) == 0 || len(p.Src) > maxCorpusLen || !utf8.ValidString(p.Src) {
			return
		}
		key := strconv.Itoa(p.Opts) + "/" + p.Src
		if seenP[key] {
			return
		}
		seenP[key] = true
		c.Patterns = append(c.Patterns, p)
		addS(p.Src)
		for _, in := range p.Inputs {
			addS(in)
		}
	}
	// 1. string literals of *_test.go
	var goFiles []string
	filepath.Walk(repo, func(path string, info os.FileInfo, err error) error {
		if err != nil {
			return nil
		}
		if info.IsDir() && (info.Name() == ".git" || info.Name() == "workdir") {
			return filepath.SkipDir
		}
		if strings.HasSuffix(path, "_test.go") {
			goFiles = append(goFiles, path)
		}
		return nil
	})
	sort.Strings(goFiles)
	fset := token.NewFileSet()
	for _, f := range goFiles {
		file, err := parser.ParseFile(fset, f, nil, 0)
		if err != nil {
			continue
		}
		ast.Inspect(file, func(n ast.Node) bool {
			if bl, ok := n.(*ast.BasicLit); ok && bl.Kind == token.STRING {
				if s, err := strconv.Unquote(bl.Value); err == nil {
					addP(CorpusPattern{Src: s, From: filepath.Base(f)})
				}
			}
			return true
		})
	}
	// 2. PCRE testoutput
	if f, err := os.Open(filepath.Join(repo, "testdata/corpus/pcre/testoutput1")); err == nil {
		sc := bufio.NewScanner(f)
		sc.Buffer(make([]byte, 1<<20), 1<<20)
		var cur *CorpusPattern
		flush := func() {
			if cur != nil {
				addP(*cur)
				cur = nil
			}
		}
		for sc.Scan() {
			line := sc.Text()
			if strings.HasPrefix(line, "/") {
				flush()
				if end := strings.LastIndex(line, "/"); end > 0 {
					p := CorpusPattern{Src: line[1:end], From: "pcre"}
					for _, fl := range line[end+1:] {
						switch fl {
						case 'i':
							p.Opts |= 1
						case 'm':
							p.Opts |= 2
						case 's':
							p.Opts |= 0x10
						case 'x':
							p.Opts |= 0x20
						}
					}
					cur = &p
				}
			} else if strings.HasPrefix(line, "    ") && cur != nil {
				cur.Inputs = append(cur.Inputs, strings.TrimPrefix(line, "    "))
			}
		}
		flush()
		f.Close()
	}
	// 3. RE2 basic.dat (tab separated: flags, pattern, input, …)
	if b, err := os.ReadFile(filepath.Join(repo, "testdata/corpus/re2/basic.dat")); err == nil {
		for _, line := range strings.Split(string(b), "\n") {
			f := strings.FieldsFunc(line, func(r rune) bool { return r == '\t' })
			if len(f) >= 3 && !strings.HasPrefix(line, "#") {
				in := f[2]
				if in == "NULL" {
					in = ""
				}
				addP(CorpusPattern{Src: f[1], Opts: 0x200, Inputs: []string{in}, From: "re2"})
				addP(CorpusPattern{Src: f[1], Inputs: []string{in}, From: "re2"})
			}
		}
	}
	// 4. rust-regex toml: regex = '…' / "…", haystack = …
	tomls, _ := filepath.Glob(filepath.Join(repo, "testdata/corpus/rust-regex/*.toml"))
	sort.Strings(tomls)
	unq := func(v string) (string, bool) {
		v = strings.TrimSpace(v)
		if len(v) >= 2 && v[0] == '\'' && v[len(v)-1] == '\'' {
			return v[1 : len(v)-1], true
		}
		if len(v) >= 2 && v[0] == '"' && v[len(v)-1] == '"' {
			if s, err := strconv.Unquote(v); err == nil {
				return s, true
			}
		}
		return "", false
	}
	for _, tf := range tomls {
		b, err := os.ReadFile(tf)
		if err != nil {
			continue
		}
		var cur *CorpusPattern
		for _, line := range strings.Split(string(b), "\n") {
			if strings.HasPrefix(line, "regex = ") {
				if cur != nil {
					addP(*cur)
					cur = nil
				}
				if s, ok := unq(strings.TrimPrefix(line, "regex = ")); ok {
					cur = &CorpusPattern{Src: s, From: "rust"}
				}
			} else if strings.HasPrefix(line, "haystack = ") && cur != nil {
				if s, ok := unq(strings.TrimPrefix(line, "haystack = ")); ok {
					cur.Inputs = append(cur.Inputs, s)
				}
			}
		}
		if cur != nil {
			addP(*cur)
		}
	}
	// 5. the parser fuzz corpus shipped with the repository
	files, _ := filepath.Glob(filepath.Join(repo, "syntax/workdir/corpus/*"))
	sort.Strings(files)
	for _, f := range files {
		if b, err := os.ReadFile(f); err == nil {
			addP(CorpusPattern{Src: string(b), From: "fuzz-corpus"})
		}
	}
	// 6. the witnesses of the defects found so far (repaired or listed): mutation and
	// re-combination around them is where their relatives are
	vdir := os.Getenv("VERIF_DIR")
	if vdir == "" {
		vdir = "/verif"
	}
	if b, err := os.ReadFile(filepath.Join(vdir, "known_findings.json")); err == nil {
		var ks []struct {
			Witness struct {
				Pattern string `json:"pattern"`
				Options int    `json:"options"`
				Input   string `json:"input"`
			} `json:"witness"`
		}
		if json.Unmarshal(b, &ks) == nil {
			for _, k := range ks {
				if k.Witness.Pattern != "" {
					addP(CorpusPattern{Src: k.Witness.Pattern, Opts: k.Witness.Options, Inputs: []string{k.Witness.Input}, From: "findings"})
				}
			}
		}
	}
	return c
}

// RunesOf lists the distinct runes of s that are not regex metacharacters.
func RunesOf(s string) []rune {
	seen := map[rune]bool{}
	var out []rune
	for _, r := range s {
		if strings.ContainsRune(`\.+*?()|[]{}^$`, r) || seen[r] {
			continue
		}
		seen[r] = true
		out = append(out, r)
	}
	return out
}

// InputsForText builds inputs for a pattern the harness has no AST of: the
// inputs found next to it, damaged copies, the pattern text itself, and random
// strings over the pattern's own runes.
func InputsForText(p CorpusPattern, pool []string, rng *rand.Rand, n int) [][]rune {
	var out [][]rune
	seen := map[string]bool{}
	add := func(r []rune) {
		if len(r) > 60 {
			r = r[:60]
		}
		if !seen[string(r)] {
			seen[string(r)] = true
			out = append(out, r)
		}
	}
	add(nil)
	for _, in := range p.Inputs {
		add([]rune(in))
	}
	alpha := RunesOf(p.Src)
	if len(alpha) == 0 {
		alpha = []rune("ab")
	}
	alpha = append(alpha, '\n', ' ')
	base := [][]rune{[]rune(p.Src)}
	for _, in := range p.Inputs {
		base = append(base, []rune(in))
	}
	for tries := 0; len(out) < n && tries < 4*n; tries++ {
		switch rng.Intn(4) {
		case 0, 1:
			b := append([]rune(nil), base[rng.Intn(len(base))]...)
			for d := 1 + rng.Intn(2); d > 0 && len(b) > 0; d-- {
				i := rng.Intn(len(b))
				switch rng.Intn(3) {
				case 0:
					b = append(b[:i], b[i+1:]...)
				case 1:
					b = append(b[:i], append([]rune{alpha[rng.Intn(len(alpha))]}, b[i:]...)...)
				case 2:
					b[i] = alpha[rng.Intn(len(alpha))]
				}
			}
			add(b)
		case 2:
			var b []rune
			for i := rng.Intn(10); i > 0; i-- {
				b = append(b, alpha[rng.Intn(len(alpha))])
			}
			add(b)
		case 3:
			if len(pool) > 0 {
				add([]rune(pool[rng.Intn(len(pool))]))
			}
		}
	}
	return out
}
