package gen

import "math/rand"

// Small AST constructors.
func L(r rune) *Node { return &Node{K: KLit, R: r} }
func S(s string) *Node {
	n := &Node{K: KConcat}
	for _, r := range s {
		n.Kids = append(n.Kids, L(r))
	}
	return n
}
func Cat(k ...*Node) *Node          { return &Node{K: KConcat, Kids: k} }
func Or(k ...*Node) *Node           { return &Node{K: KAlt, Kids: k} }
func NC(k *Node) *Node              { return &Node{K: KGroup, Kids: []*Node{k}} }
func At(k *Node) *Node              { return &Node{K: KAtomic, Kids: []*Node{k}} }
func Anch(a string) *Node           { return &Node{K: KAnchor, Anchor: a} }
func Dot() *Node                    { return &Node{K: KAny} }
func Rep(k *Node, mn, mx int) *Node { return &Node{K: KRepeat, Min: mn, Max: mx, Kids: []*Node{k}} }
func RepL(k *Node, mn, mx int) *Node {
	return &Node{K: KRepeat, Min: mn, Max: mx, Lazy: true, Kids: []*Node{k}}
}
func Look(ahead, neg bool, k *Node) *Node {
	return &Node{K: KLook, Ahead: ahead, Neg: neg, Kids: []*Node{k}}
}
func Cls(neg bool, items ...ClassItem) *Node { return &Node{K: KClass, Neg: neg, Items: items} }
func CR(r rune) ClassItem                    { return ClassItem{T: "r", Lo: r} }
func CRange(a, b rune) ClassItem             { return ClassItem{T: "range", Lo: a, Hi: b} }
func CEsc(name string) ClassItem             { return ClassItem{T: "esc", Name: name} }
func Esc(name string) *Node                  { return &Node{K: KClass, Items: []ClassItem{CEsc(name)}, Sp: 1} }

// T is a template instance builder sharing gid allocation.
type T struct {
	R   *rand.Rand
	gid int
	Let []rune
}

func (t *T) Cap(k *Node) *Node {
	t.gid++
	return &Node{K: KGroup, Capture: true, GID: t.gid, Kids: []*Node{k}}
}
func (t *T) l() rune { return t.Let[t.R.Intn(len(t.Let))] }
func (t *T) word(n int) string {
	var s []rune
	for i := 0; i < n; i++ {
		s = append(s, t.l())
	}
	return string(s)
}
func (t *T) set() *Node {
	switch t.R.Intn(6) {
	case 0:
		return Cls(false, CR(t.l()), CR(t.l()))
	case 1:
		return Cls(true, CR(t.l()))
	case 2:
		return Esc(string("dws"[t.R.Intn(3)]))
	case 3:
		a, b := t.l(), t.l()
		if a > b {
			a, b = b, a
		}
		if pairSegment(a) != pairSegment(b) && b >= 0x80 {
			// a range that leaves one run of simple-pair letters (and ASCII) takes in letters with
			// irregular case mappings (U+0130, U+0131, U+017F, ...), which the IgnoreCase oracles do not model
			b = a
		}
		return Cls(false, CRange(a, b))
	case 4:
		return Cls(true, CR(t.l()), CEsc("d"))
	}
	return Cls(false, CR(t.l()), CEsc("s"))
}
func (t *T) unit() *Node {
	switch t.R.Intn(4) {
	case 0:
		return L(t.l())
	case 1:
		return Dot()
	}
	return t.set()
}
func (t *T) loopq() (int, int) {
	q := [][2]int{{0, -1}, {1, -1}, {0, 1}, {2, -1}, {1, 3}, {0, 2}, {2, 2}}[t.R.Intn(7)]
	return q[0], q[1]
}
func (t *T) loop(k *Node) *Node {
	mn, mx := t.loopq()
	if t.R.Intn(4) == 0 {
		return RepL(k, mn, mx)
	}
	return Rep(k, mn, mx)
}
func (t *T) tail() *Node {
	switch t.R.Intn(5) {
	case 0:
		return &Node{K: KEmpty}
	case 1:
		return t.loop(t.unit())
	case 2:
		return S(t.word(1 + t.R.Intn(2)))
	case 3:
		return t.Cap(Or(S(t.word(1)), S(t.word(2))))
	}
	return Cat(t.unit(), t.loop(t.unit()))
}

// TemplateNames lists the shape templates (for evidence histograms).
var TemplateNames = []string{
	"leading-literal", "alt-of-literals", "leading-set", "fixed-distance-literal", "fixed-distance-sets",
	"literal-after-loop", "landmark-chain", "leading-anchor", "trailing-anchor", "fixed-length-trailing-anchor",
	"leading-lookahead", "bumpalong-loop", "loop-then-x", "loop-ending-loop-body", "alt-shared-prefix",
	"alt-shared-set-prefix", "atomic-alternation", "nested-atomic", "lookbehind-loop", "conditional-loop",
	"wide-literal", "negated-first-set", "counted-group-loop", "lazy-loop-then-x", "alt-with-empty",
	"start-anchor-G", "backref-after-loop", "lookaround-conditional", "alt-counted-set-prefix", "loop-then-optional-group", "group-loop-overlapping-head", "long-literal", "lookbehind-group-loop", "landmark-overlap", "lazy-group-loop", "capture-loop-backref", "long-counted-set", "balancing-pop", "balancing-pop-mirrored", "landmark-alternation", "alt-shared-lead-byte", "counted-literal-group", "optional-overlapping-set-loop", "threshold-count", "case-like-punctuation-set", "nested-mixed-laziness", "balancing-ending", "sparse-numbered-ref",
}

// Template builds template number k with random leaves.
func (t *T) Template(k int) *Node {
	t.gid = 0
	switch TemplateNames[k%len(TemplateNames)] {
	case "leading-literal":
		return Cat(S(t.word(2+t.R.Intn(4))), t.tail())
	case "alt-of-literals":
		n := Or()
		for i := 0; i < 2+t.R.Intn(3); i++ {
			n.Kids = append(n.Kids, S(t.word(1+t.R.Intn(4))))
		}
		return Cat(NC(n), t.tail())
	case "leading-set":
		return Cat(t.set(), S(t.word(1+t.R.Intn(3))), t.tail())
	case "fixed-distance-literal":
		return Cat(Rep(t.unit(), 1+t.R.Intn(2), 0).fix(), S(t.word(1+t.R.Intn(3))), t.tail())
	case "fixed-distance-sets":
		return Cat(t.set(), t.set(), t.set(), t.tail())
	case "literal-after-loop":
		return Cat(Rep(t.set(), t.R.Intn(2), -1), S(t.word(1+t.R.Intn(3))), t.tail())
	case "landmark-chain":
		return Cat(S(t.word(1)), Rep(Dot(), 0, -1), S(t.word(1+t.R.Intn(2))), Rep(t.set(), 0, -1), S(t.word(1)))
	case "leading-anchor":
		a := []string{"^", `\A`, `\G`, `\b`, `\B`}[t.R.Intn(5)]
		return Cat(Anch(a), t.unit(), t.tail())
	case "trailing-anchor":
		a := []string{"$", `\z`, `\Z`, `\b`}[t.R.Intn(4)]
		return Cat(t.tail(), t.unit(), Anch(a))
	case "fixed-length-trailing-anchor":
		a := []string{"$", `\z`, `\Z`}[t.R.Intn(3)]
		return Cat(S(t.word(1+t.R.Intn(3))), t.set(), Anch(a))
	case "leading-lookahead":
		return Cat(Look(true, t.R.Intn(3) == 0, Cat(S(t.word(1+t.R.Intn(2))), t.unit())), t.unit(), t.tail())
	case "bumpalong-loop":
		return Cat(Rep(t.set(), t.R.Intn(2), -1), S(t.word(1+t.R.Intn(2))), t.tail())
	case "loop-then-x":
		x := []*Node{L(t.l()), t.set(), Anch(`\b`), Anch("$"), Rep(L(t.l()), 0, -1), Dot(), &Node{K: KEmpty}}[t.R.Intn(7)]
		return Cat(t.tail(), t.loop(t.unit()), x, t.tail())
	case "loop-ending-loop-body":
		return Cat(Rep(t.Cap(Cat(Rep(L(t.l()), 1, -1), t.set())), 0, -1), t.tail())
	case "alt-shared-prefix":
		p := t.word(1 + t.R.Intn(2))
		n := Or()
		for i := 0; i < 2+t.R.Intn(3); i++ {
			n.Kids = append(n.Kids, S(p+t.word(1+t.R.Intn(2))))
		}
		if t.R.Intn(3) == 0 {
			n.Kids = append(n.Kids, S(t.word(2)))
		}
		return Cat(NC(n), t.tail())
	case "alt-shared-set-prefix":
		s1, s2 := t.set(), t.set()
		n := Or(Cat(s1.Clone(), S(t.word(2))), Cat(s2.Clone(), S(t.word(2))), Cat(s2.Clone(), S(t.word(2))), Cat(s1.Clone(), S(t.word(2))))
		return Cat(NC(n), t.tail())
	case "atomic-alternation":
		n := Or()
		for i := 0; i < 3+t.R.Intn(3); i++ {
			if t.R.Intn(6) == 0 {
				n.Kids = append(n.Kids, &Node{K: KEmpty})
			} else {
				n.Kids = append(n.Kids, S(t.word(1+t.R.Intn(3))))
			}
		}
		return Cat(At(n), t.tail())
	case "nested-atomic":
		return Cat(At(Cat(At(t.loop(t.unit())), t.loop(t.unit()))), t.tail())
	case "lookbehind-loop":
		return Cat(t.tail(), Look(false, t.R.Intn(2) == 0, Cat(t.loop(t.unit()), t.unit())), t.unit(), t.tail())
	case "conditional-loop":
		return Cat(t.Cap(Rep(L(t.l()), 0, 1)), &Node{K: KCondRef, Ref: 1, Kids: []*Node{Cat(t.loop(t.unit()), t.unit()), Cat(t.unit(), t.loop(t.unit()))}}, t.tail())
	case "wide-literal":
		w := []rune(t.word(2 + t.R.Intn(3)))
		wide := []rune{'é', 'λ', 'ж', 0x10000, 0x1F600, 0xFFFF, 0x10FFFF, 'ß', 'İ'}
		w[t.R.Intn(len(w))] = wide[t.R.Intn(len(wide))]
		return Cat(S(string(w)), t.tail())
	case "negated-first-set":
		c := []rune{t.l(), 0x10000, 0xFFFF, 0xFFFE, 0x10FFFF, 0}[t.R.Intn(6)]
		return Cat(NC(Or(Cat(Cls(true, CR(c)), L(t.l())), S(t.word(2)))), t.tail())
	case "counted-group-loop":
		return Cat(Rep(NC(Cat(L(t.l()), Rep(L(t.l()), 0, -1))), 2, 2+t.R.Intn(2)), t.tail())
	case "lazy-loop-then-x":
		return Cat(RepL(t.unit(), t.R.Intn(2), -1), []*Node{L(t.l()), Rep(L(t.l()), 0, -1), Anch(`\G`), t.set()}[t.R.Intn(4)], t.tail())
	case "alt-with-empty":
		return Cat(t.Cap(Or(S(t.word(1)), &Node{K: KEmpty}, S(t.word(2)))), t.unit(), t.tail())
	case "start-anchor-G":
		return Cat(t.tail(), Anch(`\G`), t.tail())
	case "backref-after-loop":
		return Cat(t.Cap(t.loop(t.unit())), t.tail(), &Node{K: KBackref, Ref: 1})
	case "alt-counted-set-prefix":
		// branches that start with the same set / not-one under different counts: {n} vs {n,m} vs {n,}
		var head *Node
		if t.R.Intn(3) == 0 {
			head = Cls(true, CR(t.l()))
		} else {
			head = t.set()
		}
		n := 1 + t.R.Intn(2)
		counts := [][2]int{{n, n}, {n, n + 1 + t.R.Intn(2)}, {n, -1}, {n, n}, {n + 1, n + 1}}
		t.R.Shuffle(len(counts), func(i, j int) { counts[i], counts[j] = counts[j], counts[i] })
		alt := Or()
		for i := 0; i < 2+t.R.Intn(2); i++ {
			alt.Kids = append(alt.Kids, Cat(Rep(head.Clone(), counts[i][0], counts[i][1]), S(t.word(1))))
		}
		if t.R.Intn(2) == 0 {
			return Cat(t.Cap(alt), t.tail())
		}
		return Cat(NC(alt), t.tail())
	case "loop-then-optional-group":
		// a loop followed by a group that may match nothing, then something overlapping the loop
		u := t.unit()
		g := NC(Cat(t.unit(), t.unit()))
		opt := []*Node{Rep(g, 0, -1), Rep(g, 0, 1), RepL(g, 0, -1), Rep(g, 0, 2)}[t.R.Intn(4)]
		return Cat(t.tail(), t.loop(u.Clone()), opt, []*Node{u.Clone(), t.unit(), L(t.l())}[t.R.Intn(3)], t.tail())
	case "group-loop-overlapping-head":
		// a repeated group whose body ends in greedy loop(s) and whose head overlaps them: the loop
		// must give characters back to the next iteration
		a, b := t.l(), t.l()
		head := []*Node{Cls(false, CR(a), CR(b)), L(a), Dot(), Esc("w")}[t.R.Intn(4)]
		body := Cat(head, Rep(L(a), 0, -1))
		if t.R.Intn(2) == 0 {
			body.Kids = append(body.Kids, Rep(L(b), 0, []int{-1, 1, 2}[t.R.Intn(3)]))
		}
		var grp *Node
		if t.R.Intn(3) == 0 {
			grp = t.Cap(body)
		} else {
			grp = NC(body)
		}
		q := [][2]int{{2, 2}, {2, 3}, {1, 2}, {2, -1}, {3, 3}, {1, -1}}[t.R.Intn(6)]
		return Cat(t.tail(), Rep(grp, q[0], q[1]), []*Node{L(t.l()), S(t.word(2)), Anch("$"), &Node{K: KEmpty}}[t.R.Intn(4)])
	case "long-literal":
		// longer than the 50-rune Boyer-Moore prefix cap
		n := 45 + t.R.Intn(30)
		var w []rune
		for i := 0; i < n; i++ {
			w = append(w, rune('a'+(i*7+t.R.Intn(3))%26))
		}
		if t.R.Intn(3) == 0 {
			w[t.R.Intn(len(w))] = t.l()
		}
		return Cat(t.tail(), S(string(w)), t.tail())
	case "lookbehind-group-loop":
		// a repeated group with inner loops inside a look-behind (its body runs right to left)
		a, b := t.l(), t.l()
		body := []*Node{
			Cat(Rep(L(b), 0, -1), S(string([]rune{a, b}))),
			Cat(S(string([]rune{a, b})), Rep(L(a), 0, -1)),
			Cat(Rep(L(a), 1, -1), t.set(), Rep(L(b), 0, 1)),
		}[t.R.Intn(3)]
		q := [][2]int{{2, 2}, {1, 2}, {2, 3}, {1, -1}}[t.R.Intn(4)]
		return Cat(t.tail(), Look(false, t.R.Intn(4) == 0, Rep(NC(body), q[0], q[1])), []*Node{Anch("$"), t.unit(), &Node{K: KEmpty}, Anch(`\b`)}[t.R.Intn(4)])
	case "landmark-overlap":
		// leading unbounded set loop, then required landmarks (counted sets and literals) that overlap
		// each other, with optional gaps
		a, b := t.l(), t.l()
		lead := []*Node{Esc("d"), Esc("w"), Cls(false, CR(t.l()), CR(t.l())), Cls(true, CR(a))}[t.R.Intn(4)]
		n := Cat(Rep(lead, t.R.Intn(2), -1))
		for i := 0; i < 2+t.R.Intn(2); i++ {
			switch t.R.Intn(4) {
			case 0:
				n.Kids = append(n.Kids, Rep(Cls(false, CR(a), CR(b)), 1, 1+t.R.Intn(3)))
			case 1:
				n.Kids = append(n.Kids, S(string([]rune{[]rune{a, b}[t.R.Intn(2)]})))
			case 2:
				n.Kids = append(n.Kids, S(t.word(1+t.R.Intn(2))))
			case 3:
				n.Kids = append(n.Kids, Rep(Esc("s"), 0, -1), Rep(Cls(false, CR(a), CR(t.l())), 1+t.R.Intn(2), 2+t.R.Intn(2)))
			}
		}
		n.Kids = append(n.Kids, L([]rune{a, b}[t.R.Intn(2)]))
		return n
	case "lazy-group-loop":
		// a lazy counted GROUP loop that must iterate beyond its minimum, plain or inside a look-behind
		w := t.word(1 + t.R.Intn(2))
		q := [][2]int{{1, 2}, {1, 3}, {0, 2}, {2, 4}, {1, -1}}[t.R.Intn(5)]
		var grp *Node
		if t.R.Intn(3) == 0 {
			grp = t.Cap(S(w))
		} else {
			grp = NC(S(w))
		}
		core := Cat(L(t.l()), RepL(grp, q[0], q[1]))
		if t.R.Intn(2) == 0 {
			return Cat(t.tail(), Look(false, t.R.Intn(3) == 0, core), L(t.l()), t.tail())
		}
		return Cat(t.tail(), core, L(t.l()), t.tail())
	case "capture-loop-backref":
		// a leading capture that starts with a loop, referenced later: (a*b)\1
		first := t.Cap(Cat(t.loop(t.unit()), t.unit()))
		mid := []*Node{&Node{K: KEmpty}, L(t.l()), Rep(Esc("s"), 0, 1)}[t.R.Intn(3)]
		return Cat(first, mid, &Node{K: KBackref, Ref: 1}, t.tail())
	case "long-counted-set":
		// a class repeated a fixed number of times beyond the analysers' 20-iteration cut-off
		n := 18 + t.R.Intn(20)
		return Cat(Rep(t.set(), n, n), S(t.word(1+t.R.Intn(2))), t.tail())
	case "balancing-pop":
		// pushes that are only partly popped: the pushed group keeps captures after the pops
		a, b := t.l(), t.l()
		t.gid = 1
		push := &Node{K: KGroup, Capture: true, GID: 1, Name: "a", Kids: []*Node{L(a)}}
		t.gid = 2
		pop := &Node{K: KBalance, GID: 2, Ref: 1, ByName: true, Kids: []*Node{L(b)}}
		if t.R.Intn(2) == 0 {
			pop.Name = "c"
		}
		pq := [][2]int{{1, 1}, {1, 2}, {0, 1}, {1, -1}}[t.R.Intn(4)]
		var popNode *Node = pop
		if !(pq[0] == 1 && pq[1] == 1) {
			popNode = Rep(pop, pq[0], pq[1])
		}
		return Cat(Rep(push, 1, -1), popNode, t.tail())
	case "landmark-alternation":
		// a leading unbounded set loop and landmarks that are alternations of "whitespace loop, core,
		// whitespace loop" (required or optional whitespace): \w+(?:\s+at\s+|\s*@\s*)\w*(?:\s+dot\s+|\.)\w+
		ws := func(required bool) *Node {
			if required {
				return Rep(Esc("s"), 1, -1)
			}
			return Rep(Esc("s"), 0, -1)
		}
		landmark := func() *Node {
			n := Or()
			for i := 0; i < 1+t.R.Intn(2); i++ {
				core := []*Node{S(t.word(1 + t.R.Intn(3))), L(t.l()), Cls(false, CR(t.l()), CR(t.l()))}[t.R.Intn(3)]
				switch t.R.Intn(4) {
				case 0:
					n.Kids = append(n.Kids, Cat(ws(true), core, ws(true)))
				case 1:
					n.Kids = append(n.Kids, Cat(ws(false), core, ws(false)))
				case 2:
					n.Kids = append(n.Kids, Cat(ws(t.R.Intn(2) == 0), core, ws(t.R.Intn(2) == 0)))
				default:
					n.Kids = append(n.Kids, core)
				}
			}
			return NC(n)
		}
		lead := []*Node{Esc("w"), Cls(false, CEsc("w"), CR('-'), CR('.')), Esc("d")}[t.R.Intn(3)]
		n := Cat(Rep(lead, 1, -1), landmark(), Rep(Esc("w"), t.R.Intn(2), -1), landmark(), Rep(Esc("w"), 1, -1))
		if t.R.Intn(3) == 0 {
			n.Kids = append(n.Kids, landmark(), Rep(Esc("w"), 1, -1))
		}
		return n
	case "alt-shared-lead-byte":
		// alternation branches that begin with different runes sharing their leading UTF-8 bytes,
		// alone or behind a set loop / a literal (byte-wise common prefixes)
		pairs := [][2]rune{{'é', 'è'}, {'中', '与'}, {'λ', 'μ'}, {'ж', 'з'}, {0x1F600, 0x1F601}, {'é', 'ê'}}
		pr := pairs[t.R.Intn(len(pairs))]
		alt := NC(Or(Cat(L(pr[0]), S(t.word(1))), Cat(L(pr[1]), S(t.word(1)))))
		if t.R.Intn(3) == 0 {
			alt.Kids[0].Kids = append(alt.Kids[0].Kids, Cat(L(pr[0]), L(pr[1])))
		}
		switch t.R.Intn(4) {
		case 0:
			return Cat(Rep(Esc("s"), 0, -1), alt, t.tail())
		case 1:
			return Cat(Rep(t.set(), t.R.Intn(2), -1), alt, t.tail())
		case 2:
			return Cat(S(t.word(1+t.R.Intn(2))), alt, t.tail())
		}
		return Cat(alt, t.tail())
	case "counted-literal-group":
		// a literal group repeated an exact number of times around the analysers' cut-offs (4
		// iterations, 32 characters), with a different literal behind it
		n := []int{3, 4, 5, 6, 8, 9, 17}[t.R.Intn(7)]
		g := NC(S(t.word(2 + t.R.Intn(2))))
		var grp *Node = g
		if t.R.Intn(3) == 0 {
			grp = t.Cap(S(t.word(2)))
		}
		return Cat(Rep(grp, n, n), S(t.word(1+t.R.Intn(2))), t.tail())
	case "optional-overlapping-set-loop":
		// set loop, then an optional set loop sharing characters with it - explicitly atomic, or
		// captured and referenced later - then an item disjoint from the first loop
		a, b, c := t.l(), t.l(), t.l()
		first := Rep(Cls(false, CR(a), CR(b)), 0, -1)
		second := Rep(Cls(false, CR(b), CR(c)), 0, 1+t.R.Intn(2))
		end := []*Node{Esc("d"), L('!'), Cls(false, CR('!'), CR('1'))}[t.R.Intn(3)]
		switch t.R.Intn(3) {
		case 0:
			return Cat(first, At(second), end, t.tail())
		case 1:
			return Cat(first, t.Cap(second), end, &Node{K: KBackref, Ref: t.gid}, t.tail())
		}
		return Cat(t.Cap(first), second, end, &Node{K: KBackref, Ref: t.gid}, t.tail())
	case "threshold-count":
		// fixed counts and literal lengths around the constants of the analysers and filters
		// (4 iterations, 8 bytes, 20 expansions, 32 / 50 / 64 / 256 characters, 1024 repeats)
		ns := []int{3, 4, 5, 6, 7, 8, 9, 19, 20, 21, 22, 31, 32, 33, 49, 50, 51, 63, 64, 65}
		if t.R.Intn(4) == 0 {
			ns = []int{255, 256, 257, 1023, 1024, 1025, 1100}
		}
		return t.Threshold(ns[t.R.Intn(len(ns))], t.R.Intn(thresholdShapes), t.R.Intn(3) == 0)
	case "case-like-punctuation-set":
		// ASCII punctuation pairs that differ by 0x20 like letters do ([ and {, \ and |, ] and },
		// ^ and ~, @ and `): not case pairs, whatever a bit trick says
		pairs := [][2]rune{{'[', '{'}, {'\\', '|'}, {']', '}'}, {'^', '~'}, {'@', '`'}}
		pr := pairs[t.R.Intn(len(pairs))]
		set := Cls(false, CR(pr[0]), CR(pr[1]))
		rest := []*Node{L('"'), L(pr[0]), L('_'), S(t.word(1))}[t.R.Intn(4)]
		n := Cat(set, rest, t.tail())
		if t.R.Intn(2) == 0 {
			return Cat(&Node{K: KOptGroup, On: "i", Kids: []*Node{n}})
		}
		return n
	case "nested-mixed-laziness":
		// a single-character repeater of one laziness directly inside a group repeater of the other:
		// the engine must not multiply them ((?:a+?)+ is not a+?)
		inner := []*Node{Rep(t.unit(), 1, -1), Rep(t.unit(), 1, 2), Rep(t.unit(), 1, 3), Rep(t.unit(), 2, 5)}[t.R.Intn(4)]
		oq := [][2]int{{1, -1}, {1, 2}, {2, -1}, {0, -1}, {1, 3}}[t.R.Intn(5)]
		outer := Rep(NC(inner), oq[0], oq[1])
		if t.R.Intn(2) == 0 {
			inner.Lazy = true
		} else {
			outer.Lazy = true
		}
		if t.R.Intn(2) == 0 {
			return Cat(outer, t.Cap(Rep(t.unit(), 0, -1)), t.tail())
		}
		return Cat(t.tail(), outer, t.tail())
	case "balancing-pop-mirrored":
		// the mirror image of balancing-pop: read right to left the pushes come first, so the cancelled
		// capture lies to the right of the balancing group (left to right the pop finds nothing to pop)
		a, b := t.l(), t.l()
		t.gid = 2
		push := &Node{K: KGroup, Capture: true, GID: 1, Name: "a", Kids: []*Node{L(a)}}
		pop := &Node{K: KBalance, GID: 2, Ref: 1, ByName: true, Kids: []*Node{L(b)}}
		if t.R.Intn(2) == 0 {
			pop.Name = "c"
		}
		pq := [][2]int{{1, 1}, {1, 2}, {2, 2}, {1, -1}}[t.R.Intn(4)]
		var popNode *Node = pop
		if !(pq[0] == 1 && pq[1] == 1) {
			popNode = Rep(pop, pq[0], pq[1])
		}
		mid := []*Node{&Node{K: KEmpty}, L(t.l()), t.loop(t.unit())}[t.R.Intn(3)]
		return Cat(t.tail(), popNode, mid, Rep(push, 1, -1))
	case "balancing-ending":
		// a balancing group whose pop can fail AFTER its body has matched (the body itself makes, or
		// pops, the capture the group needs), at the end of the pattern, of an atomic group or of a
		// look-around: the body's other choices must still be tried
		a, b := t.l(), t.l()
		push := func(gid int, body *Node) *Node {
			return &Node{K: KGroup, Capture: true, GID: gid, Name: "a", Kids: []*Node{body}}
		}
		pop := func(gid, ref int, body *Node) *Node {
			n := &Node{K: KBalance, GID: gid, Ref: ref, ByName: true, Kids: []*Node{body}}
			if t.R.Intn(3) == 0 {
				n.Name = "c"
			}
			return n
		}
		lazyOpt := func(n *Node) *Node { r := Rep(n, 0, 1); r.Lazy = true; return r }
		var core *Node
		t.gid = 3
		switch t.R.Intn(6) {
		case 0:
			core = pop(1, 2, lazyOpt(push(2, L(a)))) // (?<-a>(?<a>x)??)
		case 1:
			core = pop(1, 2, Or(&Node{K: KEmpty}, push(2, L(a)))) // (?<-a>|(?<a>x))
		case 2:
			core = Cat(push(1, L(a)), pop(2, 1, Rep(pop(3, 1, L(b)), 0, 1))) // (?<a>x)(?<-a>(?<-a>y)?)
		case 3:
			core = Cat(push(1, L(a)), pop(2, 1, NC(Or(pop(3, 1, L(b)), L(b))))) // (?<a>x)(?<-a>(?:(?<-a>y)|y))
		case 4:
			core = Cat(push(1, &Node{K: KEmpty}), pop(2, 1, Rep(pop(3, 1, L(b)), 0, -1))) // (?<a>)(?<-a>(?<-a>y)*)
		default:
			core = Cat(push(1, L(a)), pop(2, 1, Cat(L(b), lazyOpt(pop(3, 1, L(b)))))) // (?<a>x)(?<-a>y(?<-a>y)??)
		}
		switch t.R.Intn(4) {
		case 0:
			return Cat(t.tail(), core)
		case 1:
			return Cat(t.tail(), At(core), t.tail())
		case 2:
			return Cat(t.tail(), Look(true, false, core), L(a), t.tail())
		}
		return core
	case "sparse-numbered-ref":
		// explicitly numbered groups with holes in the numbering (slot != number), and a back-reference
		// or a conditional on one of them: the capture must survive in every program variant
		nums := [][]int{{2, 3}, {5, 7}, {2, 5}, {3, 4}, {12, 30}}[t.R.Intn(5)]
		t.gid = 2
		g1 := &Node{K: KGroup, Capture: true, GID: 1, Num: nums[0], Kids: []*Node{t.unit()}}
		g2 := &Node{K: KGroup, Capture: true, GID: 2, Num: nums[1], Kids: []*Node{[]*Node{t.unit(), t.loop(t.unit())}[t.R.Intn(2)]}}
		which := 1 + t.R.Intn(2)
		var ref *Node
		if t.R.Intn(2) == 0 {
			ref = &Node{K: KBackref, Ref: which, Sp: t.R.Intn(6)}
		} else {
			ref = &Node{K: KCondRef, Ref: which, Kids: []*Node{L(t.l()), L(t.l())}}
		}
		if t.R.Intn(3) == 0 {
			return Cat(g1, t.tail(), g2, ref)
		}
		return Cat(g1, g2, ref, t.tail())
	case "lookaround-conditional":
		return Cat(&Node{K: KCondExpr, Kids: []*Node{Look(t.R.Intn(2) == 0, t.R.Intn(2) == 0, Cat(t.unit(), t.loop(t.unit()))), Cat(t.unit(), t.loop(t.unit())), Cat(t.loop(t.unit()), t.unit())}}, t.tail())
	}
	return S(t.word(3))
}

// fix turns Rep(x, n, 0) into Rep(x, n, n) (a fixed count).
func (n *Node) fix() *Node {
	if n.K == KRepeat && n.Max == 0 {
		n.Max = n.Min
	}
	return n
}

// ThresholdCounts are the counts the threshold family walks through.
var ThresholdCounts = []int{3, 4, 5, 6, 7, 8, 9, 19, 20, 21, 22, 31, 32, 33, 49, 50, 51, 63, 64, 65, 255, 256, 257, 1023, 1024, 1025, 1100}

// ThresholdCombos is the number of (count, shape, ignore-case) combinations of the family.
func ThresholdCombos() int { return len(ThresholdCounts) * thresholdShapes * 2 }

const thresholdShapes = 8

// ThresholdNth builds combination k of the threshold family (deterministic enumeration: the
// large counts under IgnoreCase are rare in a random draw).
func (t *T) ThresholdNth(k int) *Node {
	k %= ThresholdCombos()
	return t.Threshold(ThresholdCounts[k%len(ThresholdCounts)], (k/len(ThresholdCounts))%thresholdShapes, k/(len(ThresholdCounts)*thresholdShapes) == 1)
}

// Threshold builds one member of the threshold family: count n, shape 0..7, optionally under (?i:...).
func (t *T) Threshold(n, shape int, ic bool) *Node {
	a, b := t.l(), t.l()
	for b == a {
		b = rune('0' + t.R.Intn(10))
	}
	var core *Node
	switch shape {
	case 0:
		core = Cat(Rep(L(a), n, n), L(b))
	case 1:
		core = Cat(t.set(), Rep(L(a), n, n), L(b))
	case 2:
		core = Cat(Rep(NC(S(string([]rune{a, b}))), n, n), S(t.word(1)))
	case 3:
		core = Cat(Rep(NC(L(a)), n, n), L(b), L(b))
	case 4:
		if n > 300 {
			n = 300
		}
		core = Cat(S(t.word(n)), t.unit()) // a literal of n runes
	case 6:
		// the repeater stays a (non-atomic) loop because the SAME character follows it: (a{n})ab
		core = Cat(t.Cap(Rep(L(a), n, n)), L(a), L(b))
	case 7:
		core = Cat(Rep(L(a), n, n), Look(true, false, L(a)), L(a), L(b)) // a{n}(?=a)ab
	default:
		core = Cat(Dot(), Rep(Cls(false, CR(a)), n, n), L(b))
	}
	if ic {
		return Cat(&Node{K: KOptGroup, On: "i", Kids: []*Node{core}}, t.tail())
	}
	return Cat(core, t.tail())
}
