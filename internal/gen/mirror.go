package gen

import "strconv"

// Mirror images of patterns. Matching a pattern left to right on a text and
// matching its mirror image right to left on the reversed text are the same
// search read in a mirror: the same atoms are tried in the same order, so the
// two must find mirrored matches with mirrored captures. This gives an oracle
// for RightToLeft that needs no specification and therefore reaches constructs
// outside the specification's fragment (balancing groups, conditionals, ...).

// MirrorPrep rewrites root in place into a form that has an exact mirror image
// under env and returns false when it has none:
//   - capturing groups without a name or an explicit number get a unique name
//     (numbers follow textual order, which the mirror image reverses; names do not),
//     and references to named groups are written by name;
//   - (?i) style option switches, whose scope is textual, become (?i:) groups;
//   - \G is dropped, \Z becomes \z, and $ outside Multiline becomes \z (neither
//     has a mirror image: they look at one line terminator before the end).
//
// The AST must be annotated again afterwards (Finish does so).
func MirrorPrep(root *Node, env Env) bool {
	root.Walk(func(n *Node) {
		switch n.K {
		case KGroup:
			if n.Capture && n.Name == "" && n.Num == 0 {
				n.Name = "m" + strconv.Itoa(n.GID)
			}
		case KOptSet:
			n.K = KOptGroup
			n.Kids = []*Node{{K: KEmpty}}
		case KAnchor:
			switch n.Anchor {
			case `\G`:
				n.K = KEmpty
				n.Anchor = ""
			case `\Z`:
				n.Anchor = `\z`
			}
		}
	})
	Annotate(root, env)
	ok := true
	root.Walk(func(n *Node) {
		switch n.K {
		case KAnchor:
			if n.Anchor == "$" && !n.E.ML {
				n.Anchor = `\z`
			}
		case KBackref, KCondRef, KBalance:
			t := GroupByGID(root, n.Ref)
			if t == nil {
				ok = false
				return
			}
			n.ByName = t.Name != ""
		}
	})
	return ok
}

// Mirror returns the mirror image of an AST prepared by MirrorPrep and annotated
// under the same options: sequences reversed, look-ahead and look-behind
// exchanged, start and end anchors exchanged.
func Mirror(root *Node) *Node {
	c := root.Clone()
	// the condition of a bare conditional (?(expr)yes|no) runs in the direction of its context, so
	// it mirrors by itself: its look node is left alone
	bareCond := map[*Node]bool{}
	c.Walk(func(n *Node) {
		if n.K == KCondExpr {
			if n.Bare && n.Kids[0].Ahead && !n.Kids[0].Neg {
				bareCond[n.Kids[0]] = true
			} else {
				n.Bare = false // written with an explicit look-around: stays explicit in the mirror image
			}
		}
	})
	c.Walk(func(n *Node) {
		switch n.K {
		case KConcat:
			for i, j := 0, len(n.Kids)-1; i < j; i, j = i+1, j-1 {
				n.Kids[i], n.Kids[j] = n.Kids[j], n.Kids[i]
			}
		case KLook:
			if bareCond[n] {
				break
			}
			n.Ahead = !n.Ahead
		case KAnchor:
			switch n.Anchor {
			case "^":
				if n.E.ML {
					n.Anchor = "$"
				} else {
					n.Anchor = `\z`
				}
			case "$":
				n.Anchor = "^" // only Multiline $ is left after MirrorPrep
			case `\A`:
				n.Anchor = `\z`
			case `\z`:
				n.Anchor = `\A`
			}
		}
	})
	return c
}

// ReverseRunes returns the mirror image of a text.
func ReverseRunes(s []rune) []rune {
	out := make([]rune, len(s))
	for i, r := range s {
		out[len(s)-1-i] = r
	}
	return out
}
