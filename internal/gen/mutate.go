package gen

import (
	"fmt"
	"math/rand"
	"strings"
	"unicode/utf8"
)

// Structure-aware mutation of pattern texts (C10). The tokens are what the
// parser's look-ahead and index arithmetic are sensitive to.
var mutTokens = []string{
	"(", ")", "(?:", "(?=", "(?!", "(?<=", "(?<!", "(?>", "(?<n>", "(?'n'", "(?<1>", "(?<n-m>", "(?<-n>", "(?P<n>", "(?P=n)", "(?(1)", "(?(n)", "(?(?=a)", "(?#", "(?i)", "(?-i)", "(?imnsx-imnsx:", "(?x)",
	"[", "]", "[^", "[a-", "-[", "[[:alpha:]]", "[[:^digit:]", "[:", ":]", "\\p{L}", "\\P{", "\\p{IsGreek}", "\\pL", "\\p{^L}", "\\p{Lu", "\\p{gc=Lu}", "\\p{sc=Greek}", "\\p{wb}", "\\p{sb}", "\\P{gcb}", "\\p{emoji}", "\\p{wb=Extend}", "\\p{Word_Break}", "\\p{Math}", "\\p{scx=Grek}", "\\p{Extended_Pictographic}", "\\p{wb=}", "\\p{=L}",
	"{", "}", "{1", "{1,", "{1,2}", "{,2}", "{2,1}", "{99999999999}", "{2147483647}", "{2147483648}", "{0,2147483647}", "*", "+", "?", "*?", "+?", "??", "**", "+*",
	"|", "||", "^", "$", ".", "\\", "\\", "\\A", "\\Z", "\\z", "\\b", "\\B", "\\G", "\\d", "\\D", "\\w", "\\W", "\\s", "\\S",
	"\\1", "\\2", "\\9", "\\10", "\\99", "\\0", "\\07", "\\377", "\\400", "\\k<n>", "\\k<1>", "\\k'n'", "\\k<", "\\k{n}", "\\g1", "\\<n>",
	"\\x", "\\x4", "\\x41", "\\x{41}", "\\x{110000}", "\\x{", "\\u", "\\u00", "\\u0041", "\\u{41}", "\\cA", "\\c", "\\c1", "\\e", "\\a", "\\_", "\\-", "\\ ",
	"#", " ", "\n", "\x00", "\t", "a", "Z", "0", "é", "\U0001F600", "́", "�", "￿", "\xff", "\xc0", "\xed\xa0\x80", "\xf4\x90\x80\x80",
}

// constructs cut off in the middle: appended at the very end of a pattern they exercise the
// parser's end-of-input guards
var truncTokens = []string{
	"[[:alpha:", "[[:alpha", "[[:", "[[:^digit:", "[[", "[a-", "[a", "[\\", "[^", "[a-z-[", "[a-z-[b", "[\\p{", "[\\p{L", "[\\d-",
	"\\p{", "\\p{L", "\\p", "\\P{L", "\\x{", "\\x{4", "\\x4", "\\x", "\\u00", "\\u", "\\c", "\\k<n", "\\k<", "\\k", "\\k'", "\\0", "\\1", "\\",
	"(?<", "(?<n", "(?<n-", "(?<n-m", "(?<-", "(?'", "(?'n", "(?P<", "(?P<n", "(?P=", "(?P=n", "(?P", "(?(", "(?(1", "(?(n", "(?(?", "(?(?=", "(?", "(", "(?#", "(?#c",
	"(?i", "(?i-", "(?i-m", "(?-", "(?:", "(?=", "(?<=", "(?<!", "(?>", "{", "{1", "{1,", "{1,2", "a{", "a{1", "a{1,", "a{1,2", "a{2147483647", "a*?", "a|", "|",
}

// Mutate returns a mutant of s.
func Mutate(s string, pool []string, rng *rand.Rand) string {
	b := []byte(s)
	for k := 1 + rng.Intn(3); k > 0; k-- {
		switch rng.Intn(14) {
		case 12, 13: // end the pattern in the middle of a construct
			t := truncTokens[rng.Intn(len(truncTokens))]
			if rng.Intn(3) == 0 && len(b) > 0 {
				b = b[:rng.Intn(len(b))]
			}
			b = append(b, t...)
			k = 1 // keep it at the very end
		case 0, 1, 2: // insert a token
			t := mutTokens[rng.Intn(len(mutTokens))]
			i := rng.Intn(len(b) + 1)
			b = append(b[:i], append([]byte(t), b[i:]...)...)
		case 3: // delete a span
			if len(b) > 0 {
				i := rng.Intn(len(b))
				j := i + 1 + rng.Intn(3)
				if j > len(b) {
					j = len(b)
				}
				b = append(b[:i], b[j:]...)
			}
		case 4: // duplicate a span
			if len(b) > 0 {
				i := rng.Intn(len(b))
				j := i + 1 + rng.Intn(6)
				if j > len(b) {
					j = len(b)
				}
				b = append(b[:j], append(append([]byte(nil), b[i:j]...), b[j:]...)...)
			}
		case 5: // splice with another corpus entry
			if len(pool) > 0 {
				o := pool[rng.Intn(len(pool))]
				if len(o) > 0 {
					i := rng.Intn(len(b) + 1)
					j := rng.Intn(len(o))
					b = append(append([]byte(nil), b[:i]...), o[j:]...)
				}
			}
		case 6: // flip a byte
			if len(b) > 0 {
				b[rng.Intn(len(b))] ^= byte(1 << uint(rng.Intn(8)))
			}
		case 7: // wrap in a group construct
			open := []string{"(", "(?:", "(?=", "(?<=", "(?>", "(?<n>", "(?i:", "(?(1)", "["}[rng.Intn(9)]
			b = append([]byte(open), append(b, ')')...)
		case 8: // quantify
			q := []string{"*", "+", "?", "{2}", "{0,}", "{3,1}", "{1000}", "*?", "{2147483647}"}[rng.Intn(9)]
			b = append(b, q...)
		case 9: // replace a number
			for i := 0; i < len(b); i++ {
				if b[i] >= '0' && b[i] <= '9' && rng.Intn(3) == 0 {
					n := []string{"0", "1", "9", "10", "32", "64", "255", "65535", "2147483647", "2147483648", "99999999999999999999"}[rng.Intn(11)]
					b = append(b[:i], append([]byte(n), b[i+1:]...)...)
					break
				}
			}
		case 10: // truncate
			if len(b) > 1 {
				b = b[:rng.Intn(len(b))]
			}
		case 11: // deep nesting
			d := []int{10, 50, 200, 1000, 2000}[rng.Intn(5)]
			open, close := "(", ")"
			switch rng.Intn(5) {
			case 1:
				open, close = "(?:", ")"
			case 2:
				open, close = "(?=", ")"
			case 3:
				open, close = "(?>", ")*"
			case 4:
				open, close = "[a-z-[", "]]"
			}
			b = []byte(strings.Repeat(open, d) + string(b) + strings.Repeat(close, d))
		}
	}
	if len(b) > 12000 {
		b = b[:12000]
	}
	return string(b)
}

// HostileInputs are inputs used against every compiled pattern in C10.
func HostileInputs(pattern string, rng *rand.Rand) []string {
	base := []string{"", "a", "\x00", "\n", "\xff", "\xc0\x80", "\xed\xa0\x80", "\U0001F600", "á", "�", strings.Repeat("a", 70), strings.Repeat("ab", 40) + "c",
		"aaa\nbbb\r\nccc", " \t", "(a(b)c)", "a=1;b=2", pattern}
	out := append([]string(nil), base...)
	// the pattern's own text with regex syntax stripped often matches it partially
	var lit strings.Builder
	for _, r := range pattern {
		if !strings.ContainsRune(`\()[]{}|*+?^$.`, r) {
			lit.WriteRune(r)
		}
	}
	out = append(out, lit.String())
	// a pattern of many kilobytes used as its own input multiplies the cost of every iterating call
	// (one step per position): keep the first 1,500 bytes of such inputs
	for i, in := range out {
		if len(in) > 1500 {
			cut := 1500
			for cut > 0 && !utf8.RuneStart(in[cut]) {
				cut--
			}
			out[i] = in[:cut]
		}
	}
	// a text the pattern is likely to match, or almost match, read off its syntax; with prefixes and
	// suffixes of it, so that the input ends (or begins) in the middle of what the pattern expects
	for k := 0; k < 1; k++ {
		smp := []rune(ApproxSample(pattern, rng))
		if len(smp) == 0 || len(smp) > 200 {
			continue
		}
		out = append(out, string(smp))
		// cut after every word (the text ends where the pattern still expects a separator)
		words := 0
		for i := 1; i < len(smp) && words < 6; i++ {
			if smp[i] == ' ' && smp[i-1] != ' ' {
				out = append(out, string(smp[:i]))
				words++
			}
		}
		for j := 0; j < 4; j++ {
			cut := rng.Intn(len(smp) + 1)
			out = append(out, string(smp[:cut]))
			if j%3 == 0 {
				out = append(out, string(smp[cut:]))
			}
		}
	}
	for k := 0; k < 3; k++ {
		var sb strings.Builder
		for i := rng.Intn(12); i > 0; i-- {
			sb.WriteString(mutTokens[len(mutTokens)-18+rng.Intn(18)])
		}
		out = append(out, sb.String())
	}
	return out
}

// ApproxSample reads a plausible matching text off the surface syntax of a
// pattern (which may be malformed): escapes become a member of their class,
// bracket classes their first member, groups and quantifiers are dropped,
// alternatives are picked at random. No claim that the result matches.
func ApproxSample(pattern string, rng *rand.Rand) string {
	r := []rune(pattern)
	var sb strings.Builder
	// alternation: work on one randomly chosen top-level-ish alternative per group by skipping
	// from a '|' to the closing parenthesis half of the time
	depthSkip := -1
	depth := 0
	for i := 0; i < len(r); i++ {
		c := r[i]
		if depthSkip >= 0 {
			switch c {
			case '\\':
				i++
			case '(':
				depth++
			case ')':
				if depth == depthSkip {
					depthSkip = -1
				}
				depth--
			}
			continue
		}
		switch c {
		case '\\':
			if i+1 >= len(r) {
				break
			}
			i++
			switch e := r[i]; e {
			case 's':
				sb.WriteByte(' ')
			case 'w', 'S', 'D':
				sb.WriteByte('x')
			case 'd':
				sb.WriteByte('1')
			case 'W':
				sb.WriteByte(' ')
			case 'n':
				sb.WriteByte('\n')
			case 't':
				sb.WriteByte('\t')
			case 'r':
				sb.WriteByte('\r')
			case 'b', 'B', 'A', 'z', 'Z', 'G', 'k':
			case 'p', 'P':
				for i+1 < len(r) && r[i] != '}' {
					i++
				}
				sb.WriteByte('x')
			case 'x', 'u':
				sb.WriteByte('A')
				for i+1 < len(r) && strings.ContainsRune("0123456789abcdefABCDEF{}", r[i+1]) {
					i++
				}
			default:
				if e >= '0' && e <= '9' {
					break
				}
				sb.WriteRune(e)
			}
		case '[':
			j := i + 1
			if j < len(r) && r[j] == '^' {
				j++
				sb.WriteByte('x')
			} else if j < len(r) {
				if r[j] == '\\' && j+1 < len(r) {
					switch r[j+1] {
					case 's':
						sb.WriteByte(' ')
					case 'd':
						sb.WriteByte('1')
					case 'w':
						sb.WriteByte('x')
					default:
						sb.WriteRune(r[j+1])
					}
				} else if r[j] != ']' {
					sb.WriteRune(r[j])
				}
			}
			for j < len(r) && (r[j] != ']' || j == i+1) {
				if r[j] == '\\' {
					j++
				}
				j++
			}
			i = j
		case '(':
			depth++
			if i+1 < len(r) && r[i+1] == '?' {
				// skip the group header: (?:  (?=  (?<name>  (?'name'  (?i-m:  (?#...)
				j := i + 2
				if j < len(r) && r[j] == '#' {
					for j < len(r) && r[j] != ')' {
						j++
					}
					depth--
					i = j
					break
				}
				if j < len(r) && (r[j] == '<' || r[j] == '\'' || r[j] == 'P') {
					if j+1 < len(r) && (r[j+1] == '=' || r[j+1] == '!') {
						j += 2
					} else {
						for j < len(r) && r[j] != '>' && r[j] != '\'' || j == i+2 {
							j++
							if j-i > 40 {
								break
							}
						}
						j++
					}
					i = j - 1
					break
				}
				for j < len(r) && strings.ContainsRune("imnsx-=!:>", r[j]) {
					j++
					if r[j-1] == ':' || r[j-1] == '=' || r[j-1] == '!' || r[j-1] == '>' {
						break
					}
				}
				i = j - 1
			}
		case ')':
			depth--
		case '|':
			if rng.Intn(2) == 0 {
				depthSkip = depth // drop the remaining alternatives of this group
				if depth == 0 {
					return sb.String()
				}
			} else {
				// restart the current alternative: keep what was collected before the group is unknown,
				// so simply go on (the alternatives get concatenated)
			}
		case '*', '+', '?', '^', '$':
		case '{':
			j := i
			for j < len(r) && r[j] != '}' && j-i < 12 {
				j++
			}
			if j < len(r) && r[j] == '}' {
				i = j
			}
		case '.':
			sb.WriteByte('y')
		default:
			sb.WriteRune(c)
		}
	}
	return sb.String()
}

// HostileReplacements are replacement strings used in C10.
var HostileReplacements = []string{"", "$", "$$", "$0", "$1", "$99", "${", "${1", "${n}", "${99999999999}", "$99999999999", "$+", "$_", "$`$'", "\\$1", "$&$&$&", "${-1}", "$\x00", "${\xff}", "é$1é", "${n", "$(", "$ {1}"}

// Describe renders a case compactly for the progress log.
func Describe(pattern string, opts int) string {
	return fmt.Sprintf("opts=%#x pattern=%q", opts, pattern)
}
