package gen

import (
	"fmt"
	"math/rand"
	"unicode"
)

// Profile restricts and biases the grammar for one property.
type Profile struct {
	Depth   int
	MaxKids int
	Letters []rune // literal alphabet

	Dot         bool
	Classes     bool
	Esc         bool     // \d \w \s (inside and outside brackets)
	Props       []string // \p{..} names allowed
	Posix       bool     // [[:alpha:]] (RE2 dialect only)
	Subtract    bool
	ClassRanges [][2]rune
	PairRanges  bool // ranges stay inside one run of simple-pair letters (IgnoreCase profiles)

	Anchors []string

	Groups      bool
	Named       bool
	ExplicitNum bool
	NonCap      bool
	LookAhead   bool
	LookBehind  bool
	Atomic      bool
	Backrefs    bool
	CondRef     bool
	CondExpr    bool
	InlineOpts  bool
	OptLetters  string
	Comments    bool
	Balancing   bool

	Nullable  bool // allow quantified nullable bodies and directly nested repeats
	Lazy      bool
	Quants    [][2]int
	Spellings bool
	GoSyntax  bool
	PNames    bool // (?P<name>..) spelling

	RepeatP int // probability (percent) that a piece is quantified
	AltP    int // probability (percent) of an additional alternation branch
}

var defaultQuants = [][2]int{{0, -1}, {1, -1}, {0, 1}, {2, 2}, {1, 2}, {2, -1}, {0, 2}, {2, 3}, {1, 3}, {3, 4}}

// G is one generator instance.
type G struct {
	R     *rand.Rand
	P     *Profile
	gid   int
	names []string
	nums  []int
}

func NewG(r *rand.Rand, p *Profile) *G { return &G{R: r, P: p} }

func (g *G) pct(p int) bool { return g.R.Intn(100) < p }

func (g *G) sp() int {
	if g.P.Spellings && g.R.Intn(5) == 0 {
		return g.R.Intn(64)
	}
	return 0
}

func (g *G) lit() *Node {
	return &Node{K: KLit, R: g.P.Letters[g.R.Intn(len(g.P.Letters))], Sp: g.sp()}
}

func (g *G) classItem() ClassItem {
	for {
		switch g.R.Intn(10) {
		case 0, 1, 2, 3:
			return ClassItem{T: "r", Lo: g.P.Letters[g.R.Intn(len(g.P.Letters))], Sp: g.sp()}
		case 4, 5:
			if len(g.P.ClassRanges) > 0 {
				r := g.P.ClassRanges[g.R.Intn(len(g.P.ClassRanges))]
				return ClassItem{T: "range", Lo: r[0], Hi: r[1], Sp: g.sp()}
			}
			a := g.P.Letters[g.R.Intn(len(g.P.Letters))]
			b := g.P.Letters[g.R.Intn(len(g.P.Letters))]
			if g.P.PairRanges && pairSegment(a) != pairSegment(b) {
				// under IgnoreCase a range stays inside one run of simple-pair letters
				b = a
			}
			if a > b {
				a, b = b, a
			}
			return ClassItem{T: "range", Lo: a, Hi: b, Sp: g.sp()}
		case 6, 7:
			if g.P.Esc {
				return ClassItem{T: "esc", Name: string("dDwWsS"[g.R.Intn(6)])}
			}
		case 8:
			if len(g.P.Props) > 0 {
				return ClassItem{T: "prop", Name: g.P.Props[g.R.Intn(len(g.P.Props))], Neg: g.R.Intn(4) == 0}
			}
		case 9:
			if g.P.Posix {
				names := []string{"alpha", "digit", "alnum", "upper", "lower", "space", "punct", "word", "xdigit", "blank", "cntrl", "graph", "print", "ascii"}
				return ClassItem{T: "posix", Name: names[g.R.Intn(len(names))], Neg: g.R.Intn(5) == 0}
			}
		}
	}
}

func (g *G) class(depth int) *Node {
	n := &Node{K: KClass, Neg: g.R.Intn(4) == 0}
	cnt := 1 + g.R.Intn(3)
	for i := 0; i < cnt; i++ {
		n.Items = append(n.Items, g.classItem())
	}
	if g.P.Subtract && depth > 0 && g.R.Intn(5) == 0 {
		n.Sub = g.class(depth - 1)
	}
	return n
}

func (g *G) bareEsc() *Node {
	return &Node{K: KClass, Items: []ClassItem{{T: "esc", Name: string("dDwWsS"[g.R.Intn(6)])}}, Sp: 1}
}

// Nullable reports whether the node can match the empty string (over-approximation).
func Nullable(n *Node) bool {
	switch n.K {
	case KLit, KAny, KClass:
		return false
	case KEmpty, KAnchor, KLook, KBackref, KOptSet, KComment:
		return true
	case KConcat:
		for _, k := range n.Kids {
			if !Nullable(k) {
				return false
			}
		}
		return true
	case KAlt:
		for _, k := range n.Kids {
			if Nullable(k) {
				return true
			}
		}
		return false
	case KRepeat:
		return n.Min == 0 || Nullable(n.Kids[0])
	case KGroup, KAtomic, KOptGroup, KBalance:
		return Nullable(n.Kids[0])
	case KCondRef:
		return Nullable(n.Kids[0]) || Nullable(n.Kids[1])
	case KCondExpr:
		return Nullable(n.Kids[1]) || Nullable(n.Kids[2])
	}
	return true
}

func singleCharAtom(n *Node) bool {
	return n.K == KLit || n.K == KAny || n.K == KClass
}

// ReducesToRepeat over-approximates "is a bare quantified item or reducible to
// one": strip non-capturing and atomic wrappers; what remains is a repeat, or a
// concatenation made only of single-character atoms and repeats of them.
func ReducesToRepeat(n *Node) bool { return reducesToRepeat(n, false, false) }

// ReducesToRepeatUnder is ReducesToRepeat for a body quantified greedily (outerLazy false) or
// lazily: the engine multiplies directly nested repeaters only when both are greedy or both lazy,
// so a single-character repeater of the OTHER laziness inside plain non-capturing groups keeps
// its backtracking semantics and stays inside the fragment: (?:a+?)+, (?:[ab]{1,2}){2,3}?.
func ReducesToRepeatUnder(n *Node, outerLazy bool) bool { return reducesToRepeat(n, true, outerLazy) }

func reducesToRepeat(n *Node, relax, outerLazy bool) bool {
	throughAtomic := false
	for {
		switch {
		case n.K == KAtomic:
			throughAtomic = true
			n = n.Kids[0]
			continue
		case n.K == KGroup && !n.Capture, n.K == KOptGroup:
			n = n.Kids[0]
			continue
		case (n.K == KConcat || n.K == KAlt) && len(n.Kids) == 1:
			n = n.Kids[0]
			continue
		}
		break
	}
	if n.K == KRepeat {
		if relax && !throughAtomic && n.Lazy != outerLazy && singleCharAtom(n.Kids[0]) && n.Min >= 1 {
			return false
		}
		return true
	}
	if n.K == KConcat {
		// adjacent items over the SAME single-character atom coalesce (aa* -> a+, [ab][ab]* -> [ab]+):
		// the concatenation reduces to one repeater iff every element is that atom or a repeat of it
		sawRepeat := false
		var first *Node
		for _, k := range n.Kids {
			var atom *Node
			switch {
			case singleCharAtom(k):
				atom = k
			case k.K == KRepeat && singleCharAtom(k.Kids[0]):
				atom = k.Kids[0]
				sawRepeat = true
			case k.K == KOptSet || k.K == KComment || k.K == KEmpty:
				continue
			default:
				return false
			}
			if first == nil {
				first = atom
			} else if !sameAtom(first, atom) {
				return false
			}
		}
		return sawRepeat
	}
	return false
}

// sameAtom: two single-character atoms that certainly denote different sets return false;
// anything that might be the same set returns true (over-approximation).
func sameAtom(a, b *Node) bool {
	if a.K != b.K {
		// a class may denote the same set as a literal or '.', be conservative
		return a.K == KClass || b.K == KClass
	}
	switch a.K {
	case KLit:
		return a.R == b.R || a.E.IC
	case KAny:
		return true
	}
	return true // two classes: assume they may be equal
}

func (g *G) newName() string {
	base := []string{"n", "x", "foo", "A", "b2", "Zq", "_u"}
	return base[g.R.Intn(len(base))]
}

func (g *G) capGroup(d int) *Node {
	g.gid++
	n := &Node{K: KGroup, Capture: true, GID: g.gid}
	if g.P.Named && g.R.Intn(3) == 0 {
		// mostly fresh names, sometimes a duplicate of an earlier one
		if len(g.names) > 0 && g.R.Intn(6) == 0 {
			n.Name = g.names[g.R.Intn(len(g.names))]
		} else {
			n.Name = g.newName()
			for i := 0; contains(g.names, n.Name) && i < 10; i++ {
				n.Name += string(rune('a' + g.R.Intn(26)))
			}
			g.names = append(g.names, n.Name)
		}
		if g.P.PNames && g.R.Intn(2) == 0 {
			n.PName = true
		} else if !g.P.GoSyntax && g.R.Intn(5) == 0 {
			n.Quote = true
		}
	} else if g.P.ExplicitNum && g.R.Intn(4) == 0 {
		n.Num = []int{1, 2, 3, 5, 7, 12}[g.R.Intn(6)]
	}
	n.Kids = []*Node{g.Alt(d - 1)}
	return n
}

func contains(a []string, s string) bool {
	for _, x := range a {
		if x == s {
			return true
		}
	}
	return false
}

func (g *G) optLetters() (on, off string) {
	letters := g.P.OptLetters
	if letters == "" {
		letters = "imsnx"
	}
	for _, c := range letters {
		switch g.R.Intn(4) {
		case 0:
			on += string(c)
		case 1:
			off += string(c)
		}
	}
	if on == "" && off == "" {
		on = string(letters[g.R.Intn(len(letters))])
	}
	return
}

func (g *G) look(d int) *Node {
	var ahead bool
	switch {
	case g.P.LookAhead && g.P.LookBehind:
		ahead = g.R.Intn(2) == 0
	case g.P.LookAhead:
		ahead = true
	}
	if g.R.Intn(12) == 0 {
		// (?!) never matches, (?=) always does: the reductions know both
		return &Node{K: KLook, Ahead: ahead, Neg: g.R.Intn(3) != 0, Kids: []*Node{{K: KEmpty}}}
	}
	return &Node{K: KLook, Ahead: ahead, Neg: g.R.Intn(2) == 0, Kids: []*Node{g.Alt(d - 1)}}
}

func (g *G) atom(d int) *Node {
	p := g.P
	for tries := 0; tries < 200; tries++ {
		switch g.R.Intn(24) {
		case 0, 1, 2, 3, 4, 5:
			return g.lit()
		case 6:
			if p.Dot {
				return &Node{K: KAny}
			}
		case 7, 8:
			if p.Classes {
				return g.class(1)
			}
		case 9:
			if p.Esc {
				return g.bareEsc()
			}
		case 10:
			if len(p.Anchors) > 0 {
				return &Node{K: KAnchor, Anchor: p.Anchors[g.R.Intn(len(p.Anchors))]}
			}
		case 11, 12:
			if d > 0 && p.Groups {
				return g.capGroup(d)
			}
		case 13:
			if d > 0 && p.NonCap {
				return &Node{K: KGroup, Kids: []*Node{g.Alt(d - 1)}}
			}
		case 14:
			if d > 0 && (p.LookAhead || p.LookBehind) {
				return g.look(d)
			}
		case 15:
			if d > 0 && p.Atomic {
				return &Node{K: KAtomic, Kids: []*Node{g.Alt(d - 1)}}
			}
		case 16:
			if p.Backrefs && g.gid > 0 {
				return &Node{K: KBackref, Ref: 1 + g.R.Intn(g.gid), ByName: g.R.Intn(3) == 0, Sp: g.R.Intn(6)}
			}
		case 17:
			if d > 0 && p.CondRef && g.gid > 0 {
				return &Node{K: KCondRef, Ref: 1 + g.R.Intn(g.gid), ByName: g.R.Intn(3) == 0, Kids: []*Node{g.Concat(d - 1), g.Concat(d - 1)}}
			}
		case 18:
			if d > 0 && p.CondExpr && (p.LookAhead || p.LookBehind) {
				return &Node{K: KCondExpr, Bare: g.R.Intn(2) == 0, Kids: []*Node{g.look(d), g.condBranch(d - 1), g.condBranch(d - 1)}}
			}
		case 19:
			if d > 0 && p.InlineOpts {
				on, off := g.optLetters()
				return &Node{K: KOptGroup, On: on, Off: off, Kids: []*Node{g.Alt(d - 1)}}
			}
		case 20:
			if p.InlineOpts && g.R.Intn(2) == 0 {
				on, off := g.optLetters()
				return &Node{K: KOptSet, On: on, Off: off}
			}
		case 21:
			if p.Comments && g.R.Intn(2) == 0 {
				return &Node{K: KComment, Text: []string{"", "c", "a b", "x|y", "(b)", "see (b) below", "(?<n>x)", "[a]", "a(b"}[g.R.Intn(9)], Sp: g.R.Intn(3)}
			}
		case 22:
			if d > 0 && p.Balancing && g.gid > 0 {
				g.gid++
				n := &Node{K: KBalance, GID: g.gid, Ref: 1 + g.R.Intn(g.gid-1), ByName: g.R.Intn(2) == 0, Kids: []*Node{g.Alt(d - 1)}}
				if g.R.Intn(2) == 0 {
					n.Name = g.newName()
					if !contains(g.names, n.Name) {
						g.names = append(g.names, n.Name)
					}
				}
				return n
			}
		case 23:
			if p.Nullable && g.R.Intn(3) == 0 {
				return &Node{K: KEmpty}
			}
		}
	}
	return g.lit()
}

// condBranch builds a branch of an expression conditional. Like .NET, the engine
// rejects inline option constructs that are direct children of such a
// conditional, so a branch containing one at its top level is wrapped in (?:...).
func (g *G) condBranch(d int) *Node {
	c := g.Concat(d)
	for _, k := range c.Kids {
		for k.K == KRepeat {
			k = k.Kids[0]
		}
		if k.K == KOptGroup || k.K == KOptSet {
			return &Node{K: KGroup, Kids: []*Node{c}}
		}
	}
	return c
}

func (g *G) quantOf(a *Node) *Node {
	qs := g.P.Quants
	if qs == nil {
		qs = defaultQuants
	}
	q := qs[g.R.Intn(len(qs))]
	return &Node{K: KRepeat, Min: q[0], Max: q[1], Lazy: g.P.Lazy && g.R.Intn(3) == 0, Sp: g.R.Intn(8), Kids: []*Node{a}}
}

// Piece is an atom, possibly quantified.
func (g *G) Piece(d int) *Node {
	a := g.atom(d)
	rp := g.P.RepeatP
	if rp == 0 {
		rp = 33
	}
	if !g.pct(rp) {
		return a
	}
	switch a.K {
	case KOptSet, KComment, KEmpty:
		return a
	}
	if g.P.GoSyntax && (a.K == KAnchor) {
		return a
	}
	q := g.quantOf(a)
	if !g.P.Nullable && (Nullable(a) || ReducesToRepeatUnder(a, q.Lazy)) {
		return a
	}
	return q
}

func (g *G) Concat(d int) *Node {
	n := &Node{K: KConcat}
	mk := g.P.MaxKids
	if mk == 0 {
		mk = 3
	}
	cnt := 1 + g.R.Intn(mk)
	for i := 0; i < cnt; i++ {
		n.Kids = append(n.Kids, g.Piece(d))
	}
	return n
}

func (g *G) Alt(d int) *Node {
	n := &Node{K: KAlt}
	cnt := 1
	ap := g.P.AltP
	if ap == 0 {
		ap = 40
	}
	for cnt < 4 && g.pct(ap) {
		cnt++
	}
	for i := 0; i < cnt; i++ {
		n.Kids = append(n.Kids, g.Concat(d))
	}
	return n
}

// Pattern is a generated pattern ready to compile.
type Pattern struct {
	AST    *Node
	Src    string
	Groups *GroupInfo
	Env    Env
}

// Finish annotates, numbers and prints root under the compile-time options env.
// It returns nil when the AST is not printable under that environment (e.g. a
// reference to a group that ExplicitCapture turned into a non-capturing one).
func Finish(root *Node, env Env, maintainOrder bool, po PrintOpts) *Pattern {
	Annotate(root, env)
	gi := Number(root, maintainOrder)
	ok := true
	root.Walk(func(n *Node) {
		switch n.K {
		case KBackref, KCondRef:
			if n.Cap == 0 {
				ok = false
			}
			if n.ByName {
				if t := GroupByGID(root, n.Ref); t == nil || t.Name == "" {
					n.ByName = false
				}
			}
		case KBalance:
			if t := GroupByGID(root, n.Ref); t == nil || t.Cap == 0 {
				ok = false
			}
		}
	})
	if !ok {
		return nil
	}
	return &Pattern{AST: root, Src: Print(root, po), Groups: gi, Env: env}
}

// Random generates one pattern of the profile under env.
func (g *G) Random(env Env, maintainOrder bool) *Pattern {
	for {
		g.gid = 0
		g.names = nil
		root := g.Alt(g.P.Depth)
		if p := Finish(root, env, maintainOrder, PrintOpts{GoSyntax: g.P.GoSyntax}); p != nil {
			return p
		}
	}
}

// Letter pools.
var (
	// letters whose case-fold orbit is a plain upper/lower pair
	// (the last groups: Latin Extended-A, Armenian, fullwidth, and cased runes that are not
	// in Ll/Lu - circled letters (So), Roman numerals (Nl), Greek with title-case partners (Lt) -
	// and Deseret from the supplementary planes)
	PairLower = []rune("abcdefghijlmnopqrtuvwxyz" + "éèüñ" + "αβγδ" + "джбя" + "\u0101\u0103" + "\u0561\u0562" + "\uff41\uff5a" + "\u24d0\u24e9" + "\u2170\u2174" + "\u1f80\u1f81" + "\U00010428\U00010429")
	PairUpper = []rune("ABCDEFGHIJLMNOPQRTUVWXYZ" + "ÉÈÜÑ" + "ΑΒΓΔ" + "ДЖБЯ" + "\u0100\u0102" + "\u0531\u0532" + "\uff21\uff3a" + "\u24b6\u24cf" + "\u2160\u2164" + "\u1f88\u1f89" + "\U00010400\U00010401")
)

// pairSegment numbers the runs of simple-pair letters (same script, same case);
// 0 for anything else.
func pairSegment(r rune) int {
	switch {
	case r >= 'a' && r <= 'z':
		return 1
	case r >= 'A' && r <= 'Z':
		return 2
	case r >= 0xE0 && r <= 0xFE && r != 0xF7:
		return 3
	case r >= 0xC0 && r <= 0xDE && r != 0xD7:
		return 4
	case r >= 0x3B1 && r <= 0x3C1:
		return 5
	case r >= 0x391 && r <= 0x3A1:
		return 6
	case r >= 0x430 && r <= 0x44F:
		return 7
	case r >= 0x410 && r <= 0x42F:
		return 8
	}
	return -int(r) // every other rune is its own segment
}

// OtherCase returns the other member of a simple case pair (or r itself).
func OtherCase(r rune) rune {
	for i, c := range PairLower {
		if c == r {
			return PairUpper[i]
		}
	}
	for i, c := range PairUpper {
		if c == r {
			return PairLower[i]
		}
	}
	return r
}

// IsPairLetter reports whether r belongs to the simple-pair pools.
func IsPairLetter(r rune) bool { return OtherCase(r) != r }

func init() {
	if len(PairLower) != len(PairUpper) {
		panic("pair pools differ in length")
	}
	for i := range PairLower {
		lo, up := PairLower[i], PairUpper[i]
		if unicode.ToUpper(lo) != up || unicode.ToLower(up) != lo {
			panic(fmt.Sprintf("pair pools: %U / %U are not each other's case partner", lo, up))
		}
	}
}
