package gen

// Shrinking of failing ASTs. Witnesses are shrunk inside the fragment of the
// property: every candidate is re-validated with the caller's predicate before
// the failure test is run on it.

// FragmentOK is the validity predicate of the C01/C15 fragment: quantified
// bodies are non-nullable and do not reduce to a bare repeater, and expression
// conditionals have no inline-option construct as a direct child of a branch.
func FragmentOK(root *Node) bool {
	ok := true
	root.Walk(func(n *Node) {
		switch n.K {
		case KBalance:
			ok = false // balancing groups are outside the fragment (and the specification)
		case KRepeat:
			if Nullable(n.Kids[0]) || ReducesToRepeatUnder(n.Kids[0], n.Lazy) {
				ok = false
			}
			switch n.Kids[0].K {
			case KOptSet, KComment, KEmpty:
				ok = false
			}
		case KCondExpr:
			for _, b := range n.Kids[1:] {
				if b.K == KOptGroup || b.K == KOptSet {
					ok = false
				}
				if b.K == KConcat {
					for _, k := range b.Kids {
						for k.K == KRepeat {
							k = k.Kids[0]
						}
						if k.K == KOptGroup || k.K == KOptSet {
							ok = false
						}
					}
				}
			}
		}
	})
	return ok
}

func candidates(root *Node) []*Node {
	var out []*Node
	var paths [][]int
	var walk func(n *Node, path []int)
	walk = func(n *Node, path []int) {
		paths = append(paths, append([]int(nil), path...))
		for i, k := range n.Kids {
			walk(k, append(path, i))
		}
	}
	walk(root, nil)
	get := func(r *Node, path []int) (*Node, *Node, int) {
		var parent *Node
		idx := -1
		n := r
		for _, i := range path {
			parent = n
			idx = i
			n = n.Kids[i]
		}
		return n, parent, idx
	}
	replace := func(path []int, f func(n *Node) *Node) {
		c := root.Clone()
		n, parent, idx := get(c, path)
		r := f(n)
		if r == nil {
			return
		}
		if parent == nil {
			c = r
		} else {
			parent.Kids[idx] = r
		}
		out = append(out, c)
	}
	for _, p := range paths {
		n, parent, idx := get(root, p)
		if parent != nil && parent.K == KCondExpr && idx == 0 {
			continue // the condition of an expression conditional stays a look-around (its content still shrinks)
		}
		switch n.K {
		case KAlt, KConcat:
			if len(n.Kids) > 1 {
				for i := range n.Kids {
					i := i
					replace(p, func(n *Node) *Node {
						n.Kids = append(append([]*Node(nil), n.Kids[:i]...), n.Kids[i+1:]...)
						return n
					})
				}
			} else if len(p) > 0 && len(n.Kids) == 1 {
				replace(p, func(n *Node) *Node { return n.Kids[0] })
			}
		case KRepeat:
			replace(p, func(n *Node) *Node { return n.Kids[0] })
			if n.Lazy {
				replace(p, func(n *Node) *Node { n.Lazy = false; return n })
			}
			if n.Max > n.Min+1 || n.Max == -1 {
				replace(p, func(n *Node) *Node { n.Max = n.Min + 1; return n })
			}
			if n.Min > 1 {
				replace(p, func(n *Node) *Node {
					n.Min--
					if n.Max > 0 && n.Max > n.Min+1 {
						n.Max--
					}
					return n
				})
			}
		case KGroup, KAtomic, KOptGroup:
			replace(p, func(n *Node) *Node { return n.Kids[0] })
			if n.K == KGroup && n.Capture && n.Name != "" {
				replace(p, func(n *Node) *Node { n.Name = ""; n.Quote = false; n.PName = false; return n })
			}
		case KLook:
			replace(p, func(n *Node) *Node { return &Node{K: KEmpty} })
			replace(p, func(n *Node) *Node { return n.Kids[0] })
		case KCondRef:
			replace(p, func(n *Node) *Node { return n.Kids[0] })
			replace(p, func(n *Node) *Node { return n.Kids[1] })
		case KCondExpr:
			replace(p, func(n *Node) *Node { return n.Kids[1] })
			replace(p, func(n *Node) *Node { return n.Kids[2] })
		case KClass:
			if len(n.Items) > 1 {
				for i := range n.Items {
					i := i
					replace(p, func(n *Node) *Node {
						n.Items = append(append([]ClassItem(nil), n.Items[:i]...), n.Items[i+1:]...)
						return n
					})
				}
			}
			if n.Sub != nil {
				replace(p, func(n *Node) *Node { n.Sub = nil; return n })
			}
			if len(n.Items) == 1 && n.Items[0].T == "r" && !n.Neg && n.Sub == nil {
				replace(p, func(n *Node) *Node { return &Node{K: KLit, R: n.Items[0].Lo} })
			}
		case KOptSet, KComment:
			replace(p, func(n *Node) *Node { return &Node{K: KEmpty} })
		case KLit:
			if n.Sp != 0 {
				replace(p, func(n *Node) *Node { n.Sp = 0; return n })
			}
		case KAny, KBackref, KAnchor:
			replace(p, func(n *Node) *Node { return &Node{K: KEmpty} })
		}
	}
	return out
}

// Shrink greedily simplifies root while valid(candidate) and fails(candidate) hold.
// budget bounds the number of failure tests.
func Shrink(root *Node, valid, fails func(*Node) bool, budget int) *Node {
	cur := root
	for budget > 0 {
		progressed := false
		for _, c := range candidates(cur) {
			if budget <= 0 {
				break
			}
			if c.Size() >= cur.Size() && !simpler(c, cur) {
				continue
			}
			if !valid(c) {
				continue
			}
			budget--
			if fails(c) {
				cur = c
				progressed = true
				break
			}
		}
		if !progressed {
			break
		}
	}
	return cur
}

// simpler orders same-size candidates (attribute simplifications).
func simpler(a, b *Node) bool {
	return weight(a) < weight(b)
}

func weight(n *Node) int {
	w := 0
	n.Walk(func(x *Node) {
		w += 10
		if x.Lazy {
			w++
		}
		if x.Sp != 0 {
			w++
		}
		if x.Name != "" {
			w++
		}
		if x.K == KRepeat {
			if x.Max < 0 {
				w += 3
			} else {
				w += x.Max - x.Min
			}
			w += x.Min
		}
		w += len(x.Items)
		if x.Sub != nil {
			w += 5
		}
	})
	return w
}
