// Package core is the small framework every check runs in: parallel case
// execution with panic capture, evidence accounting, violation/replay files,
// known-finding handling and exit codes.
package core

import (
	"crypto/sha256"
	"encoding/hex"
	"encoding/json"
	"fmt"
	"hash/fnv"
	"os"
	"path/filepath"
	"runtime"
	"runtime/debug"
	"sort"
	"strconv"
	"strings"
	"sync"
	"sync/atomic"
	"time"
)

// VerifDir is where evidence, replays and the known-findings file live.
func VerifDir() string {
	if d := os.Getenv("VERIF_DIR"); d != "" {
		return d
	}
	return "/verif"
}

// RepoDir is the tree under test (only read for corpus harvesting; the code
// under test is linked in through the module replace).
func RepoDir() string {
	if d := os.Getenv("VERIF_REPO"); d != "" {
		return d
	}
	return "/repo"
}

// Seed returns VERIF_SEED (default 1).
func Seed() int64 {
	if s := os.Getenv("VERIF_SEED"); s != "" {
		if v, err := strconv.ParseInt(s, 10, 64); err == nil {
			return v
		}
	}
	return 1
}

// Witness is the replayable description of one case. Every check defines the
// meaning of the fields it uses; the struct is shared so that replay files and
// known-finding entries have one format.
type Witness struct {
	Check     string          `json:"check"`
	Kind      string          `json:"kind,omitempty"` // which leg of the check
	Pattern   string          `json:"pattern,omitempty"`
	AST       json.RawMessage `json:"ast,omitempty"` // generator AST when the oracle needs it
	Options   int             `json:"options"`       // regexp2.RegexOptions bits
	COpts     int             `json:"copts,omitempty"`
	Input     string          `json:"input,omitempty"`     // valid UTF-8 input
	InputHex  string          `json:"input_hex,omitempty"` // raw bytes (may be invalid UTF-8)
	InputRune []int32         `json:"input_runes,omitempty"`
	Start     int             `json:"start,omitempty"`
	N         int             `json:"n,omitempty"`
	Repl      string          `json:"replacement,omitempty"`
	Args      map[string]any  `json:"args,omitempty"`
}

// Violation is one refuting observation.
type Violation struct {
	Kind     string  `json:"kind"`
	Detail   string  `json:"detail"`
	Observed string  `json:"observed,omitempty"`
	Expected string  `json:"expected,omitempty"`
	Witness  Witness `json:"witness"`
	Index    int     `json:"case_index"`
}

// Local is a per-goroutine accumulator; merged into the Run when the worker ends.
type Local struct {
	run       *Run
	counters  map[string]int64
	distinct  map[uint64]struct{}
	evals     int64
	samples   []any
	incon     map[string]int64
	distinctN int64
	CaseIndex int
	Ctx       string // what the worker is busy with (reported with a panic inside the case)
}

func (l *Local) Count(key string, n int64) { l.counters[key] += n }
func (l *Local) Eval(n int64)              { l.evals += n }

// Nontrivial records one distinct non-trivial case by the hash of its identity.
func (l *Local) Nontrivial(parts ...string) {
	h := fnv.New64a()
	for _, p := range parts {
		h.Write([]byte(p))
		h.Write([]byte{0})
	}
	l.distinct[h.Sum64()] = struct{}{}
}

// Sample keeps a few actual cases for the evidence file.
func (l *Local) Sample(v any) {
	if len(l.samples) < 3 {
		l.samples = append(l.samples, v)
	}
}

func (l *Local) Inconclusive(reason string) { l.incon[reason]++ }

// NontrivialN adds n cases that are distinct by construction (enumerated without
// repetition under a pattern claimed with ClaimPattern) and non-trivial.
func (l *Local) NontrivialN(n int64) { l.distinctN += n }

// ClaimPattern returns true the first time key is seen in this run; checks use
// it so that a pattern generated twice is explored (and counted) once.
func (r *Run) ClaimPattern(key string) bool {
	_, loaded := r.claimed.LoadOrStore(key, struct{}{})
	return !loaded
}

// Violate records a violation (deduplicated by kind+pattern by the Run).
func (l *Local) Violate(v Violation) {
	v.Index = l.CaseIndex
	l.run.addViolation(v)
}

// Run is one execution of one check.
type Run struct {
	ID      string
	Tier    string
	Seed    int64
	start   time.Time
	Workers int

	mu         sync.Mutex
	counters   map[string]int64
	distinct   map[uint64]struct{}
	evals      int64
	samples    []any
	incon      map[string]int64
	violations []Violation
	vioKeys    map[string]int
	vioTotal   int
	knownHits  map[string]int64
	stop       atomic.Bool
	known      []KnownFinding
	Extras     map[string]any
	claimed    sync.Map
	distinctN  int64
}

func NewRun(id, tier string) *Run {
	r := &Run{ID: id, Tier: tier, Seed: Seed(), start: time.Now(), Workers: runtime.NumCPU(),
		counters: map[string]int64{}, distinct: map[uint64]struct{}{}, incon: map[string]int64{},
		vioKeys: map[string]int{}, knownHits: map[string]int64{}, Extras: map[string]any{}}
	if w := os.Getenv("VERIF_WORKERS"); w != "" {
		if n, err := strconv.Atoi(w); err == nil && n > 0 {
			r.Workers = n
		}
	}
	r.known = LoadKnown(id)
	return r
}

func (r *Run) Quick() bool { return r.Tier != "thorough" }

// Pick returns q for the quick tier and t for the thorough tier.
func (r *Run) Pick(q, t int) int {
	if r.Quick() {
		return q
	}
	return t
}

func (r *Run) newLocal() *Local {
	return &Local{run: r, counters: map[string]int64{}, distinct: map[uint64]struct{}{}, incon: map[string]int64{}}
}

func (r *Run) merge(l *Local) {
	r.mu.Lock()
	defer r.mu.Unlock()
	for k, v := range l.counters {
		r.counters[k] += v
	}
	for k := range l.distinct {
		r.distinct[k] = struct{}{}
	}
	for k, v := range l.incon {
		r.incon[k] += v
	}
	r.evals += l.evals
	r.distinctN += l.distinctN
	for _, s := range l.samples {
		if len(r.samples) < 6 {
			r.samples = append(r.samples, s)
		}
	}
}

// Main returns a Local for single-threaded sections; call Done on it.
func (r *Run) Main() *Local { return r.newLocal() }
func (l *Local) Done()      { l.run.merge(l) }

const maxReported = 12

func (r *Run) addViolation(v Violation) {
	v.Witness.Check = r.ID
	r.mu.Lock()
	defer r.mu.Unlock()
	r.vioTotal++
	key := v.Kind + "\x00" + v.Witness.Pattern + "\x00" + strconv.Itoa(v.Witness.Options)
	r.vioKeys[key]++
	if r.vioKeys[key] > 1 {
		return
	}
	if len(r.violations) >= maxReported {
		if len(r.violations) >= 4*maxReported {
			r.stop.Store(true)
		}
		r.violations = append(r.violations, v)
		return
	}
	r.violations = append(r.violations, v)
	path := r.writeReplay(v)
	fmt.Printf("VIOLATION property=%s replay=%s\n", r.ID, path)
	fmt.Printf("  kind=%s pattern=%s options=%#x %s\n", v.Kind, oneLine(fmt.Sprintf("%q", v.Witness.Pattern), 200), v.Witness.Options, oneLine(v.Detail, 400))
}

func oneLine(s string, n int) string {
	s = strings.ReplaceAll(s, "\n", " | ")
	if len(s) > n {
		s = s[:n] + "…"
	}
	return s
}

func (r *Run) writeReplay(v Violation) string {
	b, _ := json.MarshalIndent(v, "", " ")
	sum := sha256.Sum256(b)
	dir := filepath.Join(VerifDir(), "replays", r.ID)
	if RepoDir() != "/repo" {
		dir = filepath.Join(VerifDir(), ".scratch", "replays", r.ID) // a run against a scratch tree
	}
	os.MkdirAll(dir, 0o755)
	p := filepath.Join(dir, hex.EncodeToString(sum[:6])+".json")
	os.WriteFile(p, b, 0o644)
	return p
}

// Stopped is true once so many distinct violations were seen that going on is pointless.
func (r *Run) Stopped() bool { return r.stop.Load() }

// Parallel runs fn for every index in [0,n) on the worker pool. A panic inside fn
// is a violation of the running property (every property says the call returns).
func (r *Run) Parallel(n int, fn func(i int, l *Local)) {
	var next int64 = -1
	var wg sync.WaitGroup
	workers := r.Workers
	if workers > n {
		workers = n
	}
	for w := 0; w < workers; w++ {
		wg.Add(1)
		go func() {
			defer wg.Done()
			l := r.newLocal()
			defer r.merge(l)
			for {
				i := int(atomic.AddInt64(&next, 1))
				if i >= n || r.Stopped() {
					return
				}
				l.CaseIndex = i
				r.safely(i, l, fn)
			}
		}()
	}
	wg.Wait()
}

func (r *Run) safely(i int, l *Local, fn func(i int, l *Local)) {
	defer func() {
		if p := recover(); p != nil {
			st := string(debug.Stack())
			l.Violate(Violation{Kind: "panic-in-case", Detail: fmt.Sprintf("panic: %v [%s]\n%s", p, l.Ctx, trimStack(st)),
				Witness: Witness{Args: map[string]any{"case_index": i, "seed": r.Seed, "tier": r.Tier, "context": l.Ctx}}})
		}
	}()
	fn(i, l)
}

func trimStack(s string) string {
	lines := strings.Split(s, "\n")
	if len(lines) > 40 {
		lines = lines[:40]
	}
	return strings.Join(lines, "\n")
}

// Guard runs f and converts a panic into (recovered value, stack).
func Guard(f func()) (p any, stack string) {
	defer func() {
		if r := recover(); r != nil {
			p = r
			stack = trimStack(string(debug.Stack()))
		}
	}()
	f()
	return nil, ""
}

// KnownHit records that a violation fell into the class of a listed known finding.
func (r *Run) KnownHit(id string) {
	r.mu.Lock()
	r.knownHits[id]++
	r.mu.Unlock()
}

// Finish writes the evidence file and returns the process exit code.
// floors: counter name -> minimum; a counter below its floor makes the run INCONCLUSIVE.
func (r *Run) Finish(rule string, assumptions []string, floors map[string]int64) int {
	r.mu.Lock()
	defer r.mu.Unlock()
	wall := time.Since(r.start).Seconds()
	cov := map[string]any{
		"evaluations":         r.evals,
		"distinct_nontrivial": int64(len(r.distinct)) + r.distinctN,
		"rule":                rule,
		"samples":             r.samples,
		"counters":            sortedCounters(r.counters),
		"inconclusive":        r.incon,
		"known_finding_hits":  r.knownHits,
		"violations_total":    r.vioTotal,
	}
	for k, v := range r.Extras {
		cov[k] = v
	}
	if len(r.samples) == 0 {
		cov["samples"] = []any{"(no case was sampled)"}
	}
	ev := map[string]any{
		"property_id": r.ID,
		"tier":        tierName(r.Tier),
		"seed":        r.Seed,
		"level":       "exploration",
		"coverage":    cov,
		"assumptions": assumptions,
		"wall_s":      wall,
		"violations":  r.vioTotal,
	}
	b, _ := json.MarshalIndent(ev, "", " ")
	p := filepath.Join(VerifDir(), "evidence", r.ID+".json")
	if RepoDir() != "/repo" {
		// a run against a scratch tree (seeded change, reverted fix): its evidence must not replace
		// the evidence of /repo itself
		p = filepath.Join(VerifDir(), ".scratch", "evidence", r.ID+".json")
	}
	os.MkdirAll(filepath.Dir(p), 0o755)
	if err := os.WriteFile(p, b, 0o644); err != nil {
		fmt.Fprintln(os.Stderr, "cannot write evidence:", err)
	}
	fmt.Printf("%s %s seed=%d: evaluations=%d distinct_nontrivial=%d violations=%d inconclusive=%v wall=%.1fs\n",
		r.ID, r.Tier, r.Seed, r.evals, int64(len(r.distinct))+r.distinctN, r.vioTotal, r.incon, wall)
	if r.vioTotal > 0 {
		if r.vioTotal > len(r.violations) || len(r.violations) > maxReported {
			fmt.Printf("  (%d violating cases in %d distinct (kind,pattern) groups; first %d written as replays)\n", r.vioTotal, len(r.vioKeys), min(len(r.violations), maxReported))
		}
		return 1
	}
	var short []string
	for k, f := range floors {
		var got int64
		switch k {
		case "evaluations":
			got = r.evals
		case "distinct_nontrivial":
			got = int64(len(r.distinct)) + r.distinctN
		default:
			got = r.counters[k]
		}
		if got < f {
			short = append(short, fmt.Sprintf("%s=%d<%d", k, got, f))
		}
	}
	if len(short) > 0 {
		sort.Strings(short)
		fmt.Printf("INCONCLUSIVE property=%s the monitors observed too little: %s\n", r.ID, strings.Join(short, " "))
		return 3
	}
	return 0
}

func tierName(t string) string {
	if t == "thorough" {
		return "thorough"
	}
	return "quick"
}

func sortedCounters(m map[string]int64) map[string]int64 { return m }

// ---------------------------------------------------------------------------
// known findings

type KnownFinding struct {
	ID       string  `json:"id"`
	Property string  `json:"property"`
	Status   string  `json:"status"` // "known" | "fixed"
	Commit   string  `json:"commit,omitempty"`
	Title    string  `json:"title"`
	Witness  Witness `json:"witness"`
	Observed string  `json:"observed,omitempty"`
	Expected string  `json:"expected,omitempty"`
	Class    string  `json:"class,omitempty"`
}

// LoadKnown reads the committed known-findings file (never written at run time).
func LoadKnown(property string) []KnownFinding {
	b, err := os.ReadFile(filepath.Join(VerifDir(), "known_findings.json"))
	if err != nil {
		return nil
	}
	var all []KnownFinding
	if err := json.Unmarshal(b, &all); err != nil {
		fmt.Fprintln(os.Stderr, "known_findings.json is not valid JSON:", err)
		os.Exit(2)
	}
	var out []KnownFinding
	for _, k := range all {
		if k.Property == property {
			out = append(out, k)
		}
	}
	return out
}

func (r *Run) Known() []KnownFinding { return r.known }

// KnownClass returns the "known" entry of this property that declares the given
// class, or nil. A check may suppress a violation only after it has shown, by
// re-computation, that the violation falls into the class of such an entry.
func (r *Run) KnownClass(class string) *KnownFinding {
	for i := range r.known {
		if r.known[i].Status == "known" && r.known[i].Class == class {
			return &r.known[i]
		}
	}
	return nil
}

// ReplayKnown replays the witnesses of this property's entries through judge.
// judge returns "" when the witness behaves correctly, otherwise what went wrong.
// known + still failing  -> KNOWN-FINDING line (exit code unaffected)
// fixed + failing        -> VIOLATION (regression)
func (r *Run) ReplayKnown(judge func(w Witness) string) {
	for _, k := range r.known {
		var detail string
		p, st := Guard(func() { detail = judge(k.Witness) })
		if p != nil {
			detail = fmt.Sprintf("panic: %v\n%s", p, st)
		}
		switch k.Status {
		case "known":
			if detail != "" {
				fmt.Printf("KNOWN-FINDING: property=%s %s [%s] %s\n", r.ID, k.Title, k.ID, oneLine(detail, 200))
				r.mu.Lock()
				r.knownHits[k.ID+":witness"]++
				r.mu.Unlock()
			} else {
				fmt.Printf("note: known finding %s of %s no longer reproduces on this tree\n", k.ID, r.ID)
			}
		case "fixed":
			r.mu.Lock()
			r.counters["fixed_witnesses_replayed"]++
			r.mu.Unlock()
			if detail != "" {
				l := r.newLocal()
				l.Violate(Violation{Kind: "regression-of-" + k.ID, Detail: "fixed finding fails again: " + detail, Witness: k.Witness})
				r.merge(l)
			}
		}
	}
}
