package mon

import (
	"fmt"
	"unicode/utf8"

	regexp2 "github.com/dlclark/regexp2/v2"
)

// IndexMap is the reference rune<->byte index map of a string: each invalid
// byte is one rune (decoded as U+FFFD) of width one.
type IndexMap struct {
	Off   []int // rune index -> byte offset, len = runes+1
	Runes []rune
}

func NewIndexMap(s string) *IndexMap {
	m := &IndexMap{}
	for i := 0; i < len(s); {
		r, w := utf8.DecodeRuneInString(s[i:])
		m.Off = append(m.Off, i)
		m.Runes = append(m.Runes, r)
		i += w
	}
	m.Off = append(m.Off, len(s))
	return m
}

// RuneIndexMap is the map for a rune-slice input: the UTF-8 length of each rune,
// unencodable runes counting as U+FFFD.
func RuneIndexMap(runes []rune) *IndexMap {
	m := &IndexMap{Runes: runes}
	b := 0
	for _, r := range runes {
		m.Off = append(m.Off, b)
		n := utf8.RuneLen(r)
		if n < 0 {
			n = 3
		}
		b += n
	}
	m.Off = append(m.Off, b)
	return m
}

// Span is one capture in rune units.
type Span struct{ Index, Length int }

// MatchObs is a materialised observation of one match.
type MatchObs struct {
	Index, Length int
	Names         []string
	Groups        [][]Span // per Groups() position
	Text          string   // ObsAll rendering
}

func Observe(m *regexp2.Match) *MatchObs {
	if m == nil {
		return nil
	}
	o := &MatchObs{Index: m.RuneIndex, Length: m.RuneLength, Text: ObsAll(m)}
	for _, g := range m.Groups() {
		o.Names = append(o.Names, g.Name)
		var sp []Span
		for _, c := range g.Captures {
			sp = append(sp, Span{c.RuneIndex, c.RuneLength})
		}
		o.Groups = append(o.Groups, sp)
	}
	return o
}

// Chain is the canonical observation: FindRunesMatch followed by FindNextMatch
// until nil. It is cut after len+2 matches (more means non-termination).
func Chain(re *regexp2.Regexp, runes []rune) (chain []*MatchObs, err error, runaway bool) {
	m, err := re.FindRunesMatch(runes)
	for m != nil && err == nil {
		chain = append(chain, Observe(m))
		if len(chain) > len(runes)+2 {
			return chain, nil, true
		}
		m, err = re.FindNextMatch(m)
	}
	return chain, err, false
}

// ExpectAll applies the find-all rule to a chain: drop empty matches adjacent to
// the preceding reported match, truncate to n (n < 0: no limit).
func ExpectAll(chain []*MatchObs, n int, rtl bool) []*MatchObs {
	var out []*MatchObs
	prevEnd := -1
	for _, m := range chain {
		if n >= 0 && len(out) >= n {
			break
		}
		if m.Length != 0 || m.Index != prevEnd {
			out = append(out, m)
			prevEnd = m.Index + m.Length
			if rtl {
				prevEnd = m.Index
			}
		}
	}
	return out
}

func PairsString(p [][]int) string {
	if p == nil {
		return "nil"
	}
	return fmt.Sprint(p)
}
