// Package mon holds the observers shared by the checks: canonical renderings of
// what the engine returned, error classification, compile helpers.
package mon

import (
	"errors"
	"fmt"
	"strings"
	"sync"
	"time"

	regexp2 "github.com/dlclark/regexp2/v2"
	"github.com/dlclark/regexp2/v2/syntax"
)

// Compile-option bits used in witnesses.
const (
	COCodeGen = 1 << iota
	CONoASCIIBitmap
	COMaintainOrder
)

// Compile compiles pattern with RegexOptions opts and the COpts bitmask; extra
// options (e.g. a stack limit) may be appended.
func Compile(pattern string, opts int, copts int, extra ...regexp2.CompileOption) (*regexp2.Regexp, error) {
	co := []regexp2.CompileOption{regexp2.RegexOptions(opts)}
	if copts&COCodeGen != 0 {
		co = append(co, regexp2.OptionIsCodeGen())
	}
	if copts&CONoASCIIBitmap != 0 {
		co = append(co, regexp2.OptionDisableCharClassASCIIBitmap())
	}
	if copts&COMaintainOrder != 0 {
		co = append(co, regexp2.OptionMaintainCaptureOrder())
	}
	co = append(co, extra...)
	gateMu.RLock()
	defer gateMu.RUnlock()
	return compileLocked(pattern, co)
}

func compileLocked(pattern string, co []regexp2.CompileOption) (*regexp2.Regexp, error) {
	re, err := regexp2.Compile(pattern, co...)
	if err != nil {
		return nil, err
	}
	re.MatchTimeout = DefaultTimeout
	return re, nil
}

// gateMu serialises compiles that flip the process-global rewrite gate
// (syntax.VerifDisableRewrites) against every other compile of the process.
var gateMu sync.RWMutex

// CompileGated compiles with the given rewrites switched off.
func CompileGated(mask uint32, pattern string, opts int, copts int, extra ...regexp2.CompileOption) (*regexp2.Regexp, error) {
	co := []regexp2.CompileOption{regexp2.RegexOptions(opts)}
	if copts&COCodeGen != 0 {
		co = append(co, regexp2.OptionIsCodeGen())
	}
	if copts&CONoASCIIBitmap != 0 {
		co = append(co, regexp2.OptionDisableCharClassASCIIBitmap())
	}
	if copts&COMaintainOrder != 0 {
		co = append(co, regexp2.OptionMaintainCaptureOrder())
	}
	co = append(co, extra...)
	gateMu.Lock()
	defer gateMu.Unlock()
	syntax.VerifDisableRewrites = mask
	defer func() { syntax.VerifDisableRewrites = 0 }()
	return compileLocked(pattern, co)
}

// TreeDumpGated parses with the given rewrites off and returns the tree dump.
func TreeDumpGated(mask uint32, pattern string, opts int) string {
	gateMu.Lock()
	defer gateMu.Unlock()
	syntax.VerifDisableRewrites = mask
	defer func() { syntax.VerifDisableRewrites = 0 }()
	t, err := syntax.Parse(pattern, syntax.ParseOptions{RegexOptions: syntax.RegexOptions(opts)})
	if err != nil {
		return "error"
	}
	return t.Dump()
}

// ParseLocked runs syntax.Parse under the gate's read lock.
func ParseLocked(pattern string, po syntax.ParseOptions) (*syntax.RegexTree, error) {
	gateMu.RLock()
	defer gateMu.RUnlock()
	return syntax.Parse(pattern, po)
}

// DefaultTimeout bounds catastrophic backtracking in workloads that need a result;
// hitting it makes the case inconclusive, never a verdict.
var DefaultTimeout = 3 * time.Second

// IsTimeout recognises the engine's timeout error.
func IsTimeout(err error) bool {
	return err != nil && strings.Contains(err.Error(), "timeout")
}

// IsStackLimit recognises ErrBacktrackingStackLimit.
func IsStackLimit(err error) bool {
	return err != nil && errors.Is(err, regexp2.ErrBacktrackingStackLimit)
}

// ResourceErr is true for the two documented resource errors.
func ResourceErr(err error) bool { return IsTimeout(err) || IsStackLimit(err) }

// Obs renders a match canonically by group number: "nil" or "0:(i,l);1:(i,l)(i,l);…".
func Obs(m *regexp2.Match, numbers []int) string {
	if m == nil {
		return "nil"
	}
	var sb strings.Builder
	for _, g := range numbers {
		fmt.Fprintf(&sb, "%d:", g)
		grp := m.GroupByNumber(g)
		if grp == nil {
			sb.WriteString("<no such group>;")
			continue
		}
		for _, c := range grp.Captures {
			fmt.Fprintf(&sb, "(%d,%d)", c.RuneIndex, c.RuneLength)
		}
		sb.WriteByte(';')
	}
	return sb.String()
}

// ObsAll renders every group of the match in Groups() order with its name.
func ObsAll(m *regexp2.Match) string {
	if m == nil {
		return "nil"
	}
	var sb strings.Builder
	for _, g := range m.Groups() {
		sb.WriteString(g.Name)
		sb.WriteByte(':')
		for _, c := range g.Captures {
			fmt.Fprintf(&sb, "(%d,%d)", c.RuneIndex, c.RuneLength)
		}
		sb.WriteByte(';')
	}
	return sb.String()
}

// ObsErr renders (match, err).
func ObsErr(m *regexp2.Match, err error) string {
	if err != nil {
		return "error:" + ErrClass(err)
	}
	return ObsAll(m)
}

// ErrClass maps an error to a stable class name (error texts are not compared).
func ErrClass(err error) string {
	switch {
	case err == nil:
		return ""
	case IsTimeout(err):
		return "timeout"
	case IsStackLimit(err):
		return "stacklimit"
	}
	return "other(" + err.Error() + ")"
}
