#!/usr/bin/env python3
"""Regenerates MANIFEST.json from the table below (python3 tools_manifest.py)."""
import json, subprocess

CHECKS = {
 "C01": ("executable specification (reference backtracking matcher) vs engine over generated fragment patterns x exhaustive+directed inputs x all start offsets", "3 C01",
         "Engine results are compared with an independent executable specification on millions of generated (pattern,input,offset) cases per run; assurance is 'held on everything explored', with the explored shapes, options and inconclusive counts in the evidence. Right level: the property quantifies over all patterns and inputs, which only generation + an oracle can reach.",
         "Trusts internal/ref (the specification) and Go's unicode tables; IgnoreCase cases restricted to simple-pair letters; cases out of reference budget / engine timeout are inconclusive."),
 "C02": ("differential monitor: every entry point vs the canonical FindRunesMatch+FindNextMatch chain", "3 C02",
         "About 60 observations per (pattern,input) - bool calls, string chain + ByteRange, StartingAt at every byte offset, find-all, all compat methods, enumerations inside ReplaceFunc/Replace/Split - are compared with the rune-API chain over generated and harvested patterns, incl. invalid UTF-8.",
         "The rune-API chain is taken as canonical (its own correctness is C01/C03/C07); reference rune<->byte map is harness code."),
 "C03": ("differential monitor: accelerated search vs naive scan of the same compiled program (verif hook)", "3 C03",
         "Every find call is replayed by attempting the same compiled program at every position with no accelerator (hook VerifNaiveFind); compared at every start offset over templates for each search mode, random ASTs and the corpus.",
         "Trusts the hook to reset interpreter state exactly as scan does (validated on NoSearch patterns); timeouts inconclusive."),
 "C04": ("runtime assertion of published compile-time facts at every position where a single-position attempt succeeds", "3 C04",
         "Each exported fact (min/max length, anchors, prefixes, fixed-distance literals/sets, literal-after-loop, landmark chain, FcPrefix, BmPrefix) is evaluated at every real match position over exhaustive short strings; evidence counts instances per fact kind.",
         "Fact predicates are harness code written from the defining comments; landmark predicate is weaker than the published fact (ignores whitespace requirements)."),
 "C05": ("differential monitor: normal compile vs compile with rewrites gated off (verif gates), both under the naive scan", "3 C05",
         "The same pattern is compiled with the five rewrites off (all, each alone, all-but-one in the thorough tier) and both programs must give identical matches and captures on generated inputs; evidence counts patterns whose tree actually changed.",
         "Trusts that the gates switch off exactly the named passes."),
 "C07": ("trace monitor over FindNextMatch chains: ordering/disjointness/termination laws + recomputation of each next match by the naive scan with a separate \\G origin", "3 C07",
         "Iteration laws are asserted on every chain produced from zero-width-rich patterns in both directions, and find-all (regexp2 + compat) must equal the chain minus abutting empty matches.",
         "Uses the naive-scan hook as the independent search."),
 "C08": ("invariant monitor on every returned *Match (accessor order varied; rune slices with unencodable values) + reference rune/byte index map", "3 C08",
         "Structural invariants of all captures of all groups and ByteRange exactness are asserted for every match reachable through string chain, rune chain, StartingAt and ReplaceFunc evaluators, on inputs with multi-byte runes and invalid bytes.",
         "Index map oracle is harness code."),
 "C06": ("differential monitor: every compat.Matcher method (RE2 option) vs Go's regexp package on generated common-syntax patterns and three text families (nested counted loops explained by the multiplied pattern, long counts before a literal, POSIX classes)", "3 C06",
         "22 methods x n in {-1,0,1,2,3} are compared by deep equality (nil-ness, byte offsets, -1 pairs) on ASCII, multi-byte, invalid-UTF-8 and empty inputs; capacities of returned byte slices compared too; five divergences are known findings (K1-K3, K6, K7), each accepted only through an explained-by recomputation or inside its directed family.",
         "Go's regexp is the oracle; patterns Go rejects are skipped; text-returning forms compared on valid UTF-8 only."),
 "C09": ("reference fold over the match sequence + $-grammar expander vs Replace / ReplaceFunc / Split", "3 C09",
         "Replace is recomputed as a fold over the FindStringMatchStartingAt/FindNextMatch sequence with an independent expander of the documented $-grammar; ReplaceFunc, the $& identity, argument errors, cache sizes and Split (piece by piece, re-joined) are asserted in both directions.",
         "The expander (internal/ref/replace.go) is harness code written from the documentation; the match sequence comes from the find API."),
 "C10": ("panic / fatal / error-class / bounded-progress monitors over structure-aware mutation and generated patterns in child processes, hostile arguments, cache-limit compile options, 300 KB inputs, deterministic regression probes; thorough adds coverage-guided go test -fuzz; a share under -race (checkptr)", "3 C10",
         "Every exported operation is called for tens of thousands of mutated patterns and hostile inputs; recovered panics, process deaths (attributed to the case logged before execution), unexpected error classes and reproducible timing-bound misses are violations.",
         "Pattern size <= 12 KB; timing bounds are suspects re-run alone 3 times; a clean run is not a proof of absence."),
 "C11": ("race detector + result comparison over concurrent mixed workloads with GOMAXPROCS and hook-point perturbation", "3 C11",
         "G in {2,4,8,32} goroutines issue the C12 operation alphabet on shared and private Regexps under -race with yield/sleep injected at the verifPoint hooks; every result is compared with the sequential one and any race report block is a violation; evidence lists overlapping operation pairs and hook-point 4-grams actually observed.",
         "Only scheduler-produced interleavings and executed paths are observed."),
 "C12": ("history monitor: every step of exhaustive pairs / triples / random histories vs the same call on a fresh Regexp", "3 C12",
         "All ordered pairs (thorough: all triples) over a 44-operation alphabet plus random 50-step histories run with the collector off (pooled runners and buffers really reused) and on; each step must equal the fresh-Regexp result.",
         "Operation alphabet is finite; fresh results must be stable (checked up front)."),
 "C13": ("runtime assertion over limit sweeps: result equals unlimited result or ErrBacktrackingStackLimit, allocation events <= L (verif hook), monotonicity, usability after error", "3 C13",
         "Deep-backtracking patterns are run under ~100 limits each (fixed set, doubling boundaries, bisection threshold +-2); allocation sizes come from the verifTrackAlloc hook.",
         "Timeouts are inconclusive; monotonicity is both used (bisection) and cross-checked (sorted sweep)."),
 "C14": ("timed-history monitor (ten entry points, concurrent deadline computations ordered at hook points, forward-progress matches with and without backward jumps, period changes incl. a negative period): latency window, error class, clock-goroutine presence, with overshoot calibration and 3x isolated re-execution of suspects", "3 C14",
         "Histories of timed catastrophic / quick matches, idle gaps beyond the clock slop, StopTimeoutClock and concurrent deadlines with a 1 ms clock period; verdicts need 3/3 reproduction with low measured scheduler overshoot.",
         "Wall-clock by nature; may come out inconclusive on a loaded machine; ms-level accuracy not claimed."),
 "C17": ("documented numbering rule computed on the AST vs all name/number lookups (also of absent names/numbers), Match.Groups, back-references, replacement references, balancing-group and conditional probes, explicit numbers with leading zeros", "3 C17",
         "Patterns whose groups each capture a unique text are checked under default / MaintainCaptureOrder / ECMAScript / RE2 / ExplicitCapture: lists, four lookups, Groups order, GroupByName/Number, $n/${name}, \\k<n>/\\k<name> all designate the same group.",
         "Numbering rule is harness code; one combination (MaintainCaptureOrder + explicit numbers) is a known finding."),
 "C18": ("metamorphic monitor: compile option vs leading (?O) vs wrapping (?O:...) for all 32 option subsets, (?-O) scoping, the scope-free local form of the AST compiled without options, and the scope-rest law over 34 constructs x 31 option sets x 3 scope spellings", "3 C18",
         "Three compilations of the same text must have equal group maps and equal find results on every input; 32 subsets x ~4000 patterns per quick run.",
         "No external oracle needed (relation between executions)."),
 "C19": ("inverse-function and anchored-literal monitor with near-miss battery; Unescape read before and after a rejected text", "3 C19",
         "Unescape(Escape(s)) == s, Escape(s) compiles under literal-preserving option sets, matches s and rejects up to 60 near-misses; thorough covers every code point alone and followed by a hex digit.",
         "Valid UTF-8 strings only."),
 "C20": ("metamorphic monitor: case flips of input letters and of pattern letters / class members / range endpoints under IgnoreCase; exhaustive families over all 1,397 simple case pairs (12 constructs, range windows) and 518 named classes", "3 C20",
         "Match position and captures must be invariant under flips of simple-pair letters, through rune and string entry points, incl. prefix-search shapes, negated classes, subtractions and back-references.",
         "Only letters with a simple upper/lower fold orbit are flipped; seven binary / break properties that are not case-closed are a known finding (K5)."),
 "C15": ("executable specification run leftwards vs engine with RightToLeft; mirror oracle: pattern left-to-right vs its mirror image RightToLeft on the reversed text (single finds and FindNextMatch chains, full syntax)", "3 C15",
         "Same as C01 with the reference matcher started in leftward direction.",
         "As C01."),
 "C16": ("set-algebra oracle over unicode tables vs every class lookup path", "3 C16",
         "Random class expressions are judged for every rune of a domain (thorough: all 1,114,112 code points on the direct path) through CharIn, bitmap, and three regex uses.",
         "Shares Go's unicode tables with the engine; IgnoreCase limited to ASCII ranges and simple-pair letters."),
}
ALL = ["C%02d" % i for i in range(1, 21)]
props = {json.loads(l)["id"]: json.loads(l) for l in open("/verif/properties.jsonl")}
repo_commits = subprocess.run(["git", "-C", "/repo", "log", "--format=%h %s"], capture_output=True, text=True).stdout.strip().split("\n")
hooks = [c.split()[0] for c in repo_commits if "verif hooks" in c or " verif: " in c]
man = {
 "version": 1,
 "setup_cmd": "cd /verif && GOFLAGS=-mod=mod GOPROXY=off go build -tags verif -o bin/vcheck ./cmd/vcheck",
 "hooks": {
  "guard": "verif (Go build tag)",
  "enable": "go build -tags verif (run.sh does this for every check, from /repo's current working tree)",
  "baseline_off_cmd": "cd /repo && GOFLAGS=-mod=mod GOPROXY=off go test -json -vet=off -count=1 -timeout 25m ./...",
  "source_commits": hooks,
  "add_only": True,
 },
 "engines": [{"name": "vcheck", "path": "/verif/cmd/vcheck", "serves_properties": sorted(CHECKS), "kind_free_text": "Go harness: generators, executable specification, monitors; one process per check, 16 workers"}],
 "checks": [],
 "not_applicable": [],
 "notes": "All checks are runtime monitors over generated workloads; see DESIGN.md. KNOWN-FINDING lines refer to /verif/known_findings.json.",
}
for cid in ALL:
    if cid in CHECKS:
        tech, ref, text, note = CHECKS[cid]
        man["checks"].append({
            "property_id": cid,
            "quick_cmd": "./run.sh %s quick" % cid,
            "thorough_cmd": "./run.sh %s thorough" % cid,
            "evidence_file": "/verif/evidence/%s.json" % cid,
            **({"replay_cmd_template": "./run.sh %s quick -replay {path}" % cid} if cid not in ("C11", "C14") else {}),
            "engine": "vcheck",
            "level_claimed": {"category": "exploration", "text": text, "design_ref": "DESIGN.md section " + ref},
            "level_note": note,
            "technique": "runtime monitoring: " + tech,
        })
    else:
        man["not_applicable"].append({"property_id": cid, "reason": "check not built yet in this session (planned; runtime monitoring applies, see DESIGN.md section 3)"})
json.dump(man, open("/verif/MANIFEST.json", "w"), indent=1)
print("checks:", len(man["checks"]), "not_applicable:", len(man["not_applicable"]))
