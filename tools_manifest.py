#!/usr/bin/env python3
"""Regenerates MANIFEST.json from the table below (python3 tools_manifest.py)."""
import json, subprocess

CHECKS = {
 "C01": ("executable specification (reference backtracking matcher) vs engine over generated fragment patterns x exhaustive+directed inputs x all start offsets", "3 C01",
         "Engine results are compared with an independent executable specification on millions of generated (pattern,input,offset) cases per run; assurance is 'held on everything explored', with the explored shapes, options and inconclusive counts in the evidence. Right level: the property quantifies over all patterns and inputs, which only generation + an oracle can reach.",
         "Trusts internal/ref (the specification) and Go's unicode tables; IgnoreCase cases restricted to simple-pair letters; cases out of reference budget / engine timeout are inconclusive."),
 "C02": ("differential monitor: every entry point vs the canonical FindRunesMatch+FindNextMatch chain", "3 C02",
         "About 60 observations per (pattern,input) - bool calls, string chain + ByteRange, StartingAt at every byte offset, find-all, all compat methods, enumerations inside ReplaceFunc/Replace/Split - are compared with the rune-API chain over generated and harvested patterns, incl. invalid UTF-8.",
         "The rune-API chain is taken as canonical (its own correctness is C01/C03/C07); reference rune<->byte map is harness code."),
 "C03": ("differential monitor: accelerated search vs naive scan of the same compiled program (verif hook)", "3 C03",
         "Every find call is replayed by attempting the same compiled program at every position with no accelerator (hook VerifNaiveFind); compared at every start offset over templates for each search mode, random ASTs and the corpus.",
         "Trusts the hook to reset interpreter state exactly as scan does (validated on NoSearch patterns); timeouts inconclusive."),
 "C04": ("runtime assertion of published compile-time facts at every position where a single-position attempt succeeds", "3 C04",
         "Each exported fact (min/max length, anchors, prefixes, fixed-distance literals/sets, literal-after-loop, landmark chain, FcPrefix, BmPrefix) is evaluated at every real match position over exhaustive short strings; evidence counts instances per fact kind.",
         "Fact predicates are harness code written from the defining comments; landmark predicate is weaker than the published fact (ignores whitespace requirements)."),
 "C05": ("differential monitor: normal compile vs compile with rewrites gated off (verif gates), both under the naive scan", "3 C05",
         "The same pattern is compiled with the five rewrites off (all, each alone, all-but-one in the thorough tier) and both programs must give identical matches and captures on generated inputs; evidence counts patterns whose tree actually changed.",
         "Trusts that the gates switch off exactly the named passes."),
 "C07": ("trace monitor over FindNextMatch chains: ordering/disjointness/termination laws + recomputation of each next match by the naive scan with a separate \\G origin", "3 C07",
         "Iteration laws are asserted on every chain produced from zero-width-rich patterns in both directions, and find-all (regexp2 + compat) must equal the chain minus abutting empty matches.",
         "Uses the naive-scan hook as the independent search."),
 "C08": ("invariant monitor on every returned *Match + reference rune/byte index map", "3 C08",
         "Structural invariants of all captures of all groups and ByteRange exactness are asserted for every match reachable through string chain, rune chain, StartingAt and ReplaceFunc evaluators, on inputs with multi-byte runes and invalid bytes.",
         "Index map oracle is harness code."),
 "C15": ("executable specification run leftwards vs engine with RightToLeft", "3 C15",
         "Same as C01 with the reference matcher started in leftward direction.",
         "As C01."),
 "C16": ("set-algebra oracle over unicode tables vs every class lookup path", "3 C16",
         "Random class expressions are judged for every rune of a domain (thorough: all 1,114,112 code points on the direct path) through CharIn, bitmap, and three regex uses.",
         "Shares Go's unicode tables with the engine; IgnoreCase limited to ASCII ranges and simple-pair letters."),
}
ALL = ["C%02d" % i for i in range(1, 21)]
props = {json.loads(l)["id"]: json.loads(l) for l in open("/verif/properties.jsonl")}
repo_commits = subprocess.run(["git", "-C", "/repo", "log", "--format=%h %s"], capture_output=True, text=True).stdout.strip().split("\n")
hooks = [c.split()[0] for c in repo_commits if "verif hooks" in c]
man = {
 "version": 1,
 "setup_cmd": "cd /verif && GOFLAGS=-mod=mod GOPROXY=off go build -tags verif -o bin/vcheck ./cmd/vcheck",
 "hooks": {
  "guard": "verif (Go build tag)",
  "enable": "go build -tags verif (run.sh does this for every check, from /repo's current working tree)",
  "baseline_off_cmd": "cd /repo && GOFLAGS=-mod=mod GOPROXY=off go test -json -vet=off -count=1 -timeout 25m ./...",
  "source_commits": hooks,
  "add_only": True,
 },
 "engines": [{"name": "vcheck", "path": "/verif/cmd/vcheck", "serves_properties": sorted(CHECKS), "kind_free_text": "Go harness: generators, executable specification, monitors; one process per check, 16 workers"}],
 "checks": [],
 "not_applicable": [],
 "notes": "All checks are runtime monitors over generated workloads; see DESIGN.md. KNOWN-FINDING lines refer to /verif/known_findings.json.",
}
for cid in ALL:
    if cid in CHECKS:
        tech, ref, text, note = CHECKS[cid]
        man["checks"].append({
            "property_id": cid,
            "quick_cmd": "./run.sh %s quick" % cid,
            "thorough_cmd": "./run.sh %s thorough" % cid,
            "evidence_file": "/verif/evidence/%s.json" % cid,
            "replay_cmd_template": "./run.sh %s quick -replay {path}" % cid,
            "engine": "vcheck",
            "level_claimed": {"category": "exploration", "text": text, "design_ref": "DESIGN.md section " + ref},
            "level_note": note,
            "technique": "runtime monitoring: " + tech,
        })
    else:
        man["not_applicable"].append({"property_id": cid, "reason": "check not built yet in this session (planned; runtime monitoring applies, see DESIGN.md section 3)"})
json.dump(man, open("/verif/MANIFEST.json", "w"), indent=1)
print("checks:", len(man["checks"]), "not_applicable:", len(man["not_applicable"]))
